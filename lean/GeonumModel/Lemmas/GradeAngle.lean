/-
  GeonumModel.Lemmas.GradeAngle — `grade_angle` in rounded arithmetic (S-tier): finite, within 4e-15 of
  `(blade mod 4)·(π/2) + rem`, and inside `[0, 2π)`.
-/
import GeonumModel.Lemmas.AngleStep

set_option linter.unusedSectionVars false
set_option linter.unusedVariables false

namespace GeonumModel
open FloatLike FloatSpec
variable {F : Type} [FloatSpec F]
namespace Angle

/-- rounding error of a non-negative quantity bounded by `B` -/
theorem rnd_close_bound {x B : ℝ} (h0 : 0 ≤ x) (hB : x ≤ B) :
    |rnd (F := F) x - x| ≤ B / 2 ^ 53 + 1 / 10 ^ 30 := by
  have h := rnd_close (F := F) x
  rw [abs_of_nonneg h0] at h
  have : x / 2 ^ 53 ≤ B / 2 ^ 53 := div_le_div_of_nonneg_right hB (by positivity)
  linarith

theorem gradeAngle_spec {a : Angle F} (ha : a.Inv) :
    Fin a.gradeAngle ∧
    |val a.gradeAngle - ((a.grade : ℝ) * val (qp : F) + val a.rem)| ≤ 4 / 10 ^ 15 ∧
    0 ≤ val a.gradeAngle ∧ val a.gradeAngle < 4 * val (qp : F) := by
  obtain ⟨har, ha0, ha1⟩ := ha
  have hg3 : a.grade ≤ 3 := by unfold grade; omega
  have hgr : (a.grade : ℝ) ≤ 3 := by exact_mod_cast hg3
  have hg0 : (0:ℝ) ≤ a.grade := Nat.cast_nonneg _
  have hp := piV_gt3 (F := F); have hl := piV_lt4 (F := F)
  have hq := val_qp (F := F)
  have he := val_e10_pos (F := F); have elb := (val_e10_bounds (F := F)).1
  have hg53 : a.grade < 2 ^ 53 := lt_of_le_of_lt hg3 (by norm_num)
  have hgf := fin_nat (F := F) hg53
  have hgv := val_nat (F := F) hg53
  -- g·π
  have hx0 : 0 ≤ (a.grade : ℝ) * piV F := by positivity
  have hx1 : (a.grade : ℝ) * piV F ≤ 12 := by nlinarith
  obtain ⟨hf1, hv1⟩ := fmul_spec hgf (fin_pi (F := F)) (by
    rw [hgv, val_pi]; apply inRange_of_abs_le_1000; rw [abs_of_nonneg hx0]; linarith)
  rw [hgv, val_pi] at hv1
  have hc1 := rnd_close_bound (F := F) hx0 hx1
  rw [← hv1] at hc1
  obtain ⟨y1, hy1⟩ : ∃ y, y = val (fmul (FloatLike.ofNat a.grade : F) pi) := ⟨_, rfl⟩
  rw [← hy1] at hc1 hv1
  rw [abs_le] at hc1
  have hy10 : 0 ≤ y1 := by rw [hv1]; exact rnd_nonneg hx0
  have hy11 : y1 ≤ 13 := by
    have : (12:ℝ) / 2 ^ 53 + 1 / 10 ^ 30 ≤ 1 := by norm_num
    linarith
  -- /2
  obtain ⟨hf2, hv2⟩ := fdiv_spec hf1 (fin_two (F := F)) (by rw [val_two]; norm_num) (by
    rw [val_two, ← hy1]; apply inRange_of_abs_le_1000; rw [abs_of_nonneg (by linarith)]; linarith)
  rw [val_two, ← hy1] at hv2
  have hc2 := rnd_close_bound (F := F) (x := y1 / 2) (B := 13 / 2) (by linarith) (by linarith)
  rw [← hv2] at hc2
  obtain ⟨y2, hy2⟩ : ∃ y, y = val (fdiv (fmul (FloatLike.ofNat a.grade : F) pi) two) := ⟨_, rfl⟩
  rw [← hy2] at hc2 hv2
  rw [abs_le] at hc2
  have hy20 : 0 ≤ y2 := by rw [hv2]; exact rnd_nonneg (by linarith)
  have hy21 : y2 ≤ 7 := by
    have : (13:ℝ) / 2 / 2 ^ 53 + 1 / 10 ^ 30 ≤ 1 / 2 := by norm_num
    linarith
  -- + rem
  have hq' := val_qp_lt (F := F)
  have hs0 : 0 ≤ y2 + val a.rem := by linarith
  have hs1 : y2 + val a.rem ≤ 9 := by linarith
  obtain ⟨hf3, hv3⟩ := fadd_spec hf2 har (by rw [← hy2]; apply inRange_of_abs_le_1000; rw [abs_of_nonneg hs0]; linarith)
  rw [← hy2] at hv3
  have hc3 := rnd_close_bound (F := F) hs0 hs1
  rw [abs_le] at hc3
  have hga : val a.gradeAngle = rnd (F := F) (y2 + val a.rem) := hv3
  have hnum : (12:ℝ) / 2 ^ 53 / 2 + 1 / 10 ^ 30 / 2 + (13 / 2 / 2 ^ 53 + 1 / 10 ^ 30) + (9 / 2 ^ 53 + 1 / 10 ^ 30) ≤ 4 / 10 ^ 15 := by
    norm_num
  have htarget : (a.grade : ℝ) * val (qp : F) = (a.grade : ℝ) * piV F / 2 := by rw [hq]; ring
  have hclose : |val a.gradeAngle - ((a.grade : ℝ) * val (qp : F) + val a.rem)| ≤ 4 / 10 ^ 15 := by
    rw [hga, htarget, abs_le]
    constructor <;> linarith [hc1.1, hc1.2, hc2.1, hc2.2, hc3.1, hc3.2]
  refine ⟨hf3, hclose, by rw [hga]; exact rnd_nonneg hs0, ?_⟩
  rw [abs_le] at hclose
  have hgq : (a.grade : ℝ) * val (qp : F) ≤ 3 * val (qp : F) := by
    apply mul_le_mul_of_nonneg_right hgr; linarith [val_qp_gt (F := F)]
  have : (4:ℝ) / 10 ^ 15 < 9 / 10 ^ 11 := by norm_num
  linarith [hclose.2]

theorem gradeAngle_fin {a : Angle F} (ha : a.Inv) : Fin a.gradeAngle := (gradeAngle_spec ha).1

/-- the difference of two grade angles is finite -/
theorem gradeAngle_sub_fin {a b : Angle F} (ha : a.Inv) (hb : b.Inv) :
    Fin (fsub b.gradeAngle a.gradeAngle) := by
  obtain ⟨hfa, _, ha0, ha1⟩ := gradeAngle_spec ha
  obtain ⟨hfb, _, hb0, hb1⟩ := gradeAngle_spec hb
  have hq := val_qp_lt (F := F)
  exact (fsub_spec hfb hfa (by apply inRange_of_abs_le_1000; rw [abs_le]; constructor <;> linarith)).1

end Angle
end GeonumModel
