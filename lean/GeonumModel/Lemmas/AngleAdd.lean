/-
  GeonumModel.Lemmas.AngleAdd — `geometric_add` and `geometric_sub` on invariant-satisfying angles (S-tier).
-/
import GeonumModel.Lemmas.AngleInv

set_option linter.unusedSectionVars false
set_option linter.unusedVariables false

namespace GeonumModel
open FloatLike FloatSpec

variable {F : Type} [FloatSpec F]

namespace Angle

/-- the rounding slack of one addition of two remainders: `4·2⁻⁵³ + 10⁻³⁰ < 10⁻¹⁵` -/
theorem slack_lt : (4:ℝ) / 2 ^ 53 + 1 / 10 ^ 30 < 1 / 10 ^ 15 := by norm_num

/-- everything the later theorems need to know about one angle addition -/
theorem geometricAdd_spec {a b : Angle F} (ha : a.Inv) (hb : b.Inv) :
    (a.geometricAdd b).Inv ∧
    ((a.geometricAdd b).blade = a.blade + b.blade ∨ (a.geometricAdd b).blade = a.blade + b.blade + 1) ∧
    |(val (a.geometricAdd b).rem + (((a.geometricAdd b).blade : ℝ) - ((a.blade + b.blade : ℕ) : ℝ)) * val (qp : F))
        - (val a.rem + val b.rem)| < val (e10 : F) + 1 / 10 ^ 15 := by
  obtain ⟨har, ha0, ha1⟩ := ha
  obtain ⟨hbr, hb0, hb1⟩ := hb
  have hq := val_qp_gt (F := F); have hq' := val_qp_lt (F := F)
  have he := val_e10_pos (F := F); have he' := val_e10_small (F := F)
  have e10lb := (val_e10_bounds (F := F)).1
  have he15 := val_e15_pos (F := F); have he15' := (val_e15_bounds (F := F)).2
  have hsum0 : 0 ≤ val a.rem + val b.rem := by linarith
  have hsum4 : val a.rem + val b.rem ≤ 4 := by linarith
  obtain ⟨hft, hvt⟩ := fadd_spec har hbr
    (inRange_of_abs_le_1000 (by rw [abs_of_nonneg hsum0]; linarith))
  -- the rounded sum
  have hc := rnd_close (F := F) (val a.rem + val b.rem)
  rw [abs_of_nonneg hsum0, ← hvt, abs_le] at hc
  have h53 : (val a.rem + val b.rem) / 2 ^ 53 ≤ 4 / 2 ^ 53 :=
    div_le_div_of_nonneg_right hsum4 (by positivity)
  have hslack := slack_lt
  have ht0 : 0 ≤ val (fadd a.rem b.rem) := by rw [hvt]; exact rnd_nonneg hsum0
  have hnum : (1:ℝ) / 10 ^ 15 < 9 / 10 ^ 11 := by norm_num
  have ht1 : val (fadd a.rem b.rem) + val (e10 : F) ≤ 2 * val (qp : F) := by linarith
  have hterr : |val (fadd a.rem b.rem) - (val a.rem + val b.rem)| < 1 / 10 ^ 15 := by
    rw [abs_lt]; constructor <;> linarith
  rw [abs_lt] at hterr
  unfold geometricAdd
  simp only
  by_cases hz : feq (fadd a.rem b.rem) zero = true
  · rw [if_pos hz]
    have hz' : val (fadd a.rem b.rem) = 0 := by
      have := (feq_spec hft fin_zero).mp hz; rwa [val_zero] at this
    refine ⟨inv_zero _, Or.inl rfl, ?_⟩
    simp only [val_zero, sub_self, zero_mul, add_zero]
    rw [abs_lt]; constructor <;> linarith
  · rw [if_neg hz]
    have hrange := inRange_sub_qp hft ht0 (by linarith)
    by_cases h15 : flt (fabs (fsub (fadd a.rem b.rem) qp)) e15 = true
    · rw [if_pos h15]
      have hn := near_of_test hft fin_qp fin_e15 hrange h15
      rw [abs_lt] at hn
      refine ⟨inv_zero _, Or.inr rfl, ?_⟩
      simp only [val_zero]
      push_cast
      rw [abs_lt]; constructor <;> nlinarith
    · rw [if_neg h15]
      obtain ⟨hinv, hcase⟩ := normalizeBoundaries_spec (fadd a.rem b.rem) (a.blade + b.blade) hft ht0 ht1
      refine ⟨hinv, ?_, ?_⟩
      · rcases hcase with ⟨h, _⟩ | ⟨h, _⟩ | ⟨h, _, _⟩
        · left; rw [h]
        · right; rw [h]
        · right; exact h
      · rcases hcase with ⟨h, _⟩ | ⟨h, hnear⟩ | ⟨hbl, hrem, _⟩
        · rw [h]; simp only [sub_self, zero_mul, add_zero]
          rw [abs_lt]; constructor <;> linarith
        · rw [h]; simp only [val_zero]
          rw [abs_lt] at hnear
          push_cast
          rw [abs_lt]; constructor <;> nlinarith
        · rw [hbl, hrem]
          push_cast
          rw [abs_lt]; constructor <;> nlinarith

theorem geometricAdd_inv {a b : Angle F} (ha : a.Inv) (hb : b.Inv) : (a.geometricAdd b).Inv :=
  (geometricAdd_spec ha hb).1

end Angle
end GeonumModel

namespace GeonumModel
open FloatLike FloatSpec
variable {F : Type} [FloatSpec F]
namespace Angle

/-- refinement of `geometricAdd_spec`: either the sum snapped (then its remainder has value 0), or the total is off only by the
    rounding of the one addition (`< 1e-15`) -/
theorem geometricAdd_snap_or_exact {a b : Angle F} (ha : a.Inv) (hb : b.Inv) :
    val (a.geometricAdd b).rem = 0 ∨
    |(val (a.geometricAdd b).rem + (((a.geometricAdd b).blade : ℝ) - ((a.blade + b.blade : ℕ) : ℝ)) * val (qp : F))
        - (val a.rem + val b.rem)| < 1 / 10 ^ 15 := by
  obtain ⟨har, ha0, ha1⟩ := ha
  obtain ⟨hbr, hb0, hb1⟩ := hb
  have hq := val_qp_gt (F := F); have hq' := val_qp_lt (F := F)
  have he := val_e10_pos (F := F); have e10lb := (val_e10_bounds (F := F)).1
  have hsum0 : 0 ≤ val a.rem + val b.rem := by linarith
  have hsum4 : val a.rem + val b.rem ≤ 4 := by linarith
  obtain ⟨hft, hvt⟩ := fadd_spec har hbr (inRange_of_abs_le_1000 (by rw [abs_of_nonneg hsum0]; linarith))
  have hc := rnd_close (F := F) (val a.rem + val b.rem)
  rw [abs_of_nonneg hsum0, ← hvt, abs_le] at hc
  have h53 : (val a.rem + val b.rem) / 2 ^ 53 ≤ 4 / 2 ^ 53 := div_le_div_of_nonneg_right hsum4 (by positivity)
  have hslack := slack_lt
  have ht0 : 0 ≤ val (fadd a.rem b.rem) := by rw [hvt]; exact rnd_nonneg hsum0
  have hnum : (1:ℝ) / 10 ^ 15 < 9 / 10 ^ 11 := by norm_num
  have ht1 : val (fadd a.rem b.rem) + val (e10 : F) ≤ 2 * val (qp : F) := by linarith
  have hterr : |val (fadd a.rem b.rem) - (val a.rem + val b.rem)| < 1 / 10 ^ 15 := by
    rw [abs_lt]; constructor <;> linarith
  unfold geometricAdd
  simp only
  by_cases hz : feq (fadd a.rem b.rem) zero = true
  · rw [if_pos hz]; left; exact val_zero
  · rw [if_neg hz]
    by_cases h15 : flt (fabs (fsub (fadd a.rem b.rem) qp)) e15 = true
    · rw [if_pos h15]; left; exact val_zero
    · rw [if_neg h15]
      obtain ⟨_, hcase⟩ := normalizeBoundaries_spec (fadd a.rem b.rem) (a.blade + b.blade) hft ht0 ht1
      rcases hcase with ⟨h, _⟩ | ⟨h, _⟩ | ⟨hbl, hrem, _⟩
      · right; rw [h]; simp only [sub_self, zero_mul, add_zero]; exact hterr
      · left; rw [h]; exact val_zero
      · right; rw [hbl, hrem]; push_cast
        have e : val (fadd a.rem b.rem) - val (qp : F) + ((a.blade : ℝ) + (b.blade : ℝ) + 1 - ((a.blade : ℝ) + (b.blade : ℝ))) * val (qp : F)
            - (val a.rem + val b.rem) = val (fadd a.rem b.rem) - (val a.rem + val b.rem) := by ring
        rw [e]; exact hterr

end Angle
end GeonumModel

namespace GeonumModel
open FloatLike FloatSpec
variable {F : Type} [FloatSpec F]
namespace Angle

/-- when the sum did not carry, its remainder is the rounded sum of the remainders, hence at least either operand's remainder -/
theorem geometricAdd_nocarry_rem {a b : Angle F} (ha : a.Inv) (hb : b.Inv)
    (hnc : (a.geometricAdd b).blade = a.blade + b.blade) :
    val b.rem ≤ val (a.geometricAdd b).rem ∧ val a.rem ≤ val (a.geometricAdd b).rem := by
  obtain ⟨har, ha0, ha1⟩ := ha
  obtain ⟨hbr, hb0, hb1⟩ := hb
  have hq := val_qp_gt (F := F); have hq' := val_qp_lt (F := F)
  have he := val_e10_pos (F := F); have e10lb := (val_e10_bounds (F := F)).1
  have hsum0 : 0 ≤ val a.rem + val b.rem := by linarith
  have hsum4 : val a.rem + val b.rem ≤ 4 := by linarith
  obtain ⟨hft, hvt⟩ := fadd_spec har hbr (inRange_of_abs_le_1000 (by rw [abs_of_nonneg hsum0]; linarith))
  have hgeb : val b.rem ≤ val (fadd a.rem b.rem) := by
    rw [hvt]; have := rnd_mono (F := F) (show val b.rem ≤ val a.rem + val b.rem by linarith)
    rwa [rnd_val hbr] at this
  have hgea : val a.rem ≤ val (fadd a.rem b.rem) := by
    rw [hvt]; have := rnd_mono (F := F) (show val a.rem ≤ val a.rem + val b.rem by linarith)
    rwa [rnd_val har] at this
  have hc := rnd_close (F := F) (val a.rem + val b.rem)
  rw [abs_of_nonneg hsum0, ← hvt, abs_le] at hc
  have h53 : (val a.rem + val b.rem) / 2 ^ 53 ≤ 4 / 2 ^ 53 := div_le_div_of_nonneg_right hsum4 (by positivity)
  have hslack := slack_lt
  have ht0 : 0 ≤ val (fadd a.rem b.rem) := by linarith
  have hnum : (1:ℝ) / 10 ^ 15 < 9 / 10 ^ 11 := by norm_num
  have ht1 : val (fadd a.rem b.rem) + val (e10 : F) ≤ 2 * val (qp : F) := by linarith
  unfold geometricAdd at hnc ⊢
  simp only at hnc ⊢
  by_cases hz : feq (fadd a.rem b.rem) zero = true
  · rw [if_pos hz]
    have hz' := (feq_spec hft fin_zero).mp hz
    rw [val_zero] at hz' ⊢
    constructor <;> linarith
  · rw [if_neg hz] at hnc ⊢
    by_cases h15 : flt (fabs (fsub (fadd a.rem b.rem) qp)) e15 = true
    · rw [if_pos h15] at hnc; simp only at hnc; omega
    · rw [if_neg h15] at hnc ⊢
      obtain ⟨_, hcase⟩ := normalizeBoundaries_spec (fadd a.rem b.rem) (a.blade + b.blade) hft ht0 ht1
      rcases hcase with ⟨h, _⟩ | ⟨h, _⟩ | ⟨hbl, _, _⟩
      · rw [h]; exact ⟨hgeb, hgea⟩
      · rw [h] at hnc; simp only at hnc; omega
      · rw [hbl] at hnc; omega

end Angle
end GeonumModel
