/-
  GeonumModel.Lemmas.AddAngleInv — the sum of two geometric numbers is canonical in every branch (moved out of Props/C01 so that the
  property files C13 … can use it without an import cycle; Props/C01 restates these as thin wrappers).
-/
import GeonumModel.Lemmas.AngleNewTotal
import GeonumModel.Lemmas.GeonumMag

set_option linter.unusedSectionVars false
set_option linter.unusedVariables false

namespace GeonumModel
open FloatLike FloatSpec Angle Geonum
variable {F : Type} [FloatSpec F]
namespace Geonum

/-- (S) sum magnitudes: finite and non-negative (never NaN) in every branch; relies on fix 05011a7 -/
theorem add_mag_ok' {a b : Geonum F} (ha : a.MagDom) (hb : b.MagDom) (hai : a.angle.Inv) (hbi : b.angle.Inv) :
    Fin (a.add b).mag ∧ 0 ≤ val (a.add b).mag :=
  add_mag_ok ha hb (gradeAngle_sub_fin hai hbi)

/-- (S) `Angle::new(x, PI)` — "radians in, angle out" — is canonical for every finite `|x| ≤ 2^41`: used by the general branch of
    `+`, by `Angle / f64`, by `pow`, and by the optics / machine-learning helpers -/
theorem new_radians_inv {x : F} (hx : Fin x) (hb : |val x| ≤ 2 ^ 41) : (Angle.new x (FloatLike.pi : F)).Inv := by
  have hp3 := piV_gt3 (F := F); have hp4 := piV_lt4 (F := F)
  apply Angle.new_inv hx fin_pi
  · calc |val x| ≤ 2 ^ 41 := hb
      _ ≤ 10 ^ 200 := by
        calc (2:ℝ) ^ 41 ≤ 10 ^ 41 := by gcongr; norm_num
          _ ≤ 10 ^ 200 := pow_le_pow_right₀ (by norm_num) (by norm_num)
  · rw [val_pi, abs_of_pos (by linarith)]
    calc (1:ℝ) / 10 ^ 200 ≤ 1 := by rw [div_le_one (by positivity)]; exact one_le_pow₀ (by norm_num)
      _ ≤ piV F := by linarith
  · rw [val_pi, mul_div_assoc, div_self (by linarith : piV F ≠ 0), mul_one]
    calc |val x| ≤ 2 ^ 41 := hb
      _ ≤ 2 ^ 42 := by norm_num

/-- (S) **the sum of two geometric numbers has a canonical angle in every branch** (blade sums up to `2^39`): same-angle and
    opposite branches return an operand's angle or `new_with_blade(ba+bb, 0, 1)`; the general branch re-encodes
    `atan2(…) − (ba+bb)·π/2` through `Angle::new(·, PI)` and adds the blade sum -/
theorem add_angle_inv {a b : Geonum F} (ha : a.angle.Inv) (hb : b.angle.Inv) (hma : a.MagDom) (hmb : b.MagDom)
    (hcb : a.angle.blade + b.angle.blade ≤ 2 ^ 39) : (a.add b).angle.Inv := by
  have hk53 : a.angle.blade + b.angle.blade < 2 ^ 53 := lt_of_le_of_lt hcb (by norm_num)
  by_cases h1 : sameAngle a b = true
  · rw [add_same a b h1]; exact ha
  · have h1' : sameAngle a b = false := by simpa using h1
    by_cases h2 : oppositeAngle a b = true
    · by_cases h3 : flt (fabs (fsub a.mag b.mag)) (e10 : F) = true
      · rw [add_opposite_cancel a b h1' h2 h3, newWithBlade_zero _ hk53]; exact inv_zero _
      · have h3' : flt (fabs (fsub a.mag b.mag)) (e10 : F) = false := by simpa using h3
        by_cases h4 : flt (zero : F) (fsub a.mag b.mag) = true
        · rw [add_opposite_first a b h1' h2 h3' h4]; exact ha
        · rw [add_opposite_second a b h1' h2 h3' (by simpa using h4)]; exact hb
    · have h2' : oppositeAngle a b = false := by simpa using h2
      rw [add_general a b h1' h2']
      show (Angle.newWithBlade _ _ (FloatLike.pi : F)).Inv
      -- the adjusted angle is finite and at most π + (ba+bb)·π/2·(1+ε) in magnitude
      have hga := gradeAngle_fin ha; have hgb := gradeAngle_fin hb
      have prodfin : ∀ {m c : F}, Fin m → Fin c → |val c| ≤ 1 → Fin (fmul m c) ∧ |val (fmul m c)| ≤ |val m| :=
        fun hm hc hc1 => fmul_le_one hm hc hc1
      have sumfin : ∀ {x y : F}, Fin x → Fin y → |val x| ≤ 10 ^ 100 → |val y| ≤ 10 ^ 100 → Fin (fadd x y) := by
        intro x y hx hy hx1 hy1
        exact (fadd_spec hx hy (inRange_of_le (by
          have := abs_add_le (val x) (val y)
          norm_num at hx1 hy1 ⊢; linarith))).1
      have habs : ∀ g : Geonum F, g.MagDom → |val g.mag| ≤ 10 ^ 100 := fun g hg => by rw [abs_of_nonneg hg.2.1]; exact hg.2.2
      obtain ⟨hfsa, hsa1, _⟩ := sin_spec hga
      obtain ⟨hfsb, hsb1, _⟩ := sin_spec hgb
      obtain ⟨hfca, hca1, _⟩ := cos_spec hga
      obtain ⟨hfcb, hcb1, _⟩ := cos_spec hgb
      have p1 := prodfin hma.1 hfsa hsa1; have p2 := prodfin hmb.1 hfsb hsb1
      have p3 := prodfin hma.1 hfca hca1; have p4 := prodfin hmb.1 hfcb hcb1
      have hopp : Fin (oppSum a b) := sumfin p1.1 p2.1 (le_trans p1.2 (habs a hma)) (le_trans p2.2 (habs b hmb))
      have hadj : Fin (adjSum a b) := sumfin p3.1 p4.1 (le_trans p3.2 (habs a hma)) (le_trans p4.2 (habs b hmb))
      obtain ⟨hfat, hat1, _⟩ := atan2_spec hopp hadj
      have hp3 := piV_gt3 (F := F); have hp4 := piV_lt4 (F := F)
      -- the blade shift (cb·π)/2
      have hcbr : ((a.angle.blade + b.angle.blade : ℕ) : ℝ) ≤ 2 ^ 39 := by exact_mod_cast hcb
      have hcb0 : (0:ℝ) ≤ ((a.angle.blade + b.angle.blade : ℕ) : ℝ) := Nat.cast_nonneg _
      have hfn := fin_nat (F := F) hk53
      have hvn := val_nat (F := F) hk53
      have hx0 : 0 ≤ ((a.angle.blade + b.angle.blade : ℕ) : ℝ) * piV F := by positivity
      have hx1 : ((a.angle.blade + b.angle.blade : ℕ) : ℝ) * piV F ≤ 2 ^ 41 := by
        calc ((a.angle.blade + b.angle.blade : ℕ) : ℝ) * piV F ≤ 2 ^ 39 * 4 := mul_le_mul hcbr (le_of_lt hp4) (by linarith) (by positivity)
          _ = 2 ^ 41 := by norm_num
      obtain ⟨hf1, hv1⟩ := fmul_spec hfn (fin_pi (F := F)) (by
        rw [hvn, val_pi]; apply inRange_of_abs_le_2p60; rw [abs_of_nonneg hx0]
        have : (2:ℝ) ^ 41 ≤ 2 ^ 60 := by norm_num
        linarith)
      rw [hvn, val_pi] at hv1
      have hn1 := rnd_near (F := F) hx0 (by have : (2:ℝ) ^ 41 ≤ 2 ^ 53 := by norm_num
                                            linarith)
      rw [← hv1, abs_le] at hn1
      have hy0 : 0 ≤ val (fmul (FloatLike.ofNat (a.angle.blade + b.angle.blade) : F) pi) := by rw [hv1]; exact rnd_nonneg hx0
      obtain ⟨hf2, hv2⟩ := fdiv_spec hf1 (fin_two (F := F)) (by rw [val_two]; norm_num) (by
        rw [val_two]; apply inRange_of_abs_le_2p60; rw [abs_of_nonneg (by linarith)]
        have : ((2:ℝ) ^ 41 + 2) / 2 ≤ 2 ^ 60 := by norm_num
        linarith [hn1.2])
      rw [val_two] at hv2
      have hh0 : 0 ≤ val (fmul (FloatLike.ofNat (a.angle.blade + b.angle.blade) : F) pi) / 2 := by linarith
      have hh1 : val (fmul (FloatLike.ofNat (a.angle.blade + b.angle.blade) : F) pi) / 2 ≤ 2 ^ 40 + 1 := by linarith [hn1.2]
      have hn2 := rnd_near (F := F) hh0 (by have : (2:ℝ) ^ 40 + 1 ≤ 2 ^ 53 := by norm_num
                                            linarith)
      rw [← hv2, abs_le] at hn2
      have hs0 : 0 ≤ val (fdiv (fmul (FloatLike.ofNat (a.angle.blade + b.angle.blade) : F) pi) two) := by rw [hv2]; exact rnd_nonneg hh0
      have hs1 : val (fdiv (fmul (FloatLike.ofNat (a.angle.blade + b.angle.blade) : F) pi) two) ≤ 2 ^ 40 + 3 := by linarith [hn2.2]
      -- adjusted = atan2 − shift
      rw [abs_le] at hat1
      obtain ⟨hf3, hv3⟩ := fsub_spec hfat hf2 (by
        apply inRange_of_abs_le_2p60; rw [abs_le]
        have : (2:ℝ) ^ 40 + 3 + 4 ≤ 2 ^ 60 := by norm_num
        constructor <;> linarith [hat1.1, hat1.2])
      have hadjb : |val (fsub (FloatLike.atan2 (oppSum a b) (adjSum a b))
          (fdiv (fmul (FloatLike.ofNat (a.angle.blade + b.angle.blade) : F) pi) two))| ≤ 2 ^ 41 := by
        rw [hv3]
        have hraw : |val (FloatLike.atan2 (oppSum a b) (adjSum a b)) -
            val (fdiv (fmul (FloatLike.ofNat (a.angle.blade + b.angle.blade) : F) pi) two)| ≤ 2 ^ 40 + 7 := by
          rw [abs_le]; constructor <;> linarith [hat1.1, hat1.2]
        have hc := rnd_close (F := F) (val (FloatLike.atan2 (oppSum a b) (adjSum a b)) -
            val (fdiv (fmul (FloatLike.ofNat (a.angle.blade + b.angle.blade) : F) pi) two))
        have h53 : |val (FloatLike.atan2 (oppSum a b) (adjSum a b)) -
            val (fdiv (fmul (FloatLike.ofNat (a.angle.blade + b.angle.blade) : F) pi) two)| / 2 ^ 53 ≤ 1 := by
          rw [div_le_one (by positivity)]
          have : (2:ℝ) ^ 40 + 7 ≤ 2 ^ 53 := by norm_num
          linarith
        have h30 : (1:ℝ) / 10 ^ 30 ≤ 1 := by rw [div_le_one (by positivity)]; norm_num
        have := abs_sub_abs_le_abs_sub (rnd (F := F) (val (FloatLike.atan2 (oppSum a b) (adjSum a b)) -
            val (fdiv (fmul (FloatLike.ofNat (a.angle.blade + b.angle.blade) : F) pi) two)))
            (val (FloatLike.atan2 (oppSum a b) (adjSum a b)) -
            val (fdiv (fmul (FloatLike.ofNat (a.angle.blade + b.angle.blade) : F) pi) two))
        have : (2:ℝ) ^ 40 + 7 + 2 ≤ 2 ^ 41 := by norm_num
        linarith
      have hninv := new_radians_inv hf3 hadjb
      unfold Angle.newWithBlade
      simp only [Angle.add, addVV]
      rw [new_nat _ hk53]
      exact geometricAdd_inv hninv (inv_zero _)

end Geonum
end GeonumModel
