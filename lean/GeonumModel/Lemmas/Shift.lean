/-
  GeonumModel.Lemmas.Shift — G-tier: how every operation reacts to adding quarter turns to an operand's blade count.
  No assumption on the arithmetic: the conclusions are equalities of structures (bit-identity on the machine).
-/
import GeonumModel.Lemmas.Structural

set_option linter.unusedSectionVars false

namespace GeonumModel
open FloatLike
variable {F : Type} [FloatLike F]

namespace Angle

theorem shift_shift (a : Angle F) (i j : Nat) : (a.shift i).shift j = a.shift (i + j) := by
  simp [shift, Nat.add_assoc]

theorem shift_zero (a : Angle F) : a.shift 0 = a := by simp [shift]

theorem shift4_eq_shift (a : Angle F) (n : Nat) : a.shift4 n = a.shift (4 * n) := rfl

/-- blade counts enter an angle sum only additively -/
theorem geometricAdd_shift (a b : Angle F) (i j : Nat) :
    (a.shift i).geometricAdd (b.shift j) = (a.geometricAdd b).shift (i + j) := by
  unfold geometricAdd shift
  simp only
  split
  · simp; omega
  · split
    · simp; omega
    · rw [normalizeBoundaries_eq, normalizeBoundaries_eq]; simp; omega

/-- the remainder and the grade of a difference do not see whole turns added to either operand -/
theorem geometricSub_shift4 (a b : Angle F) (n m : Nat) :
    ((a.shift4 n).geometricSub (b.shift4 m)).rem = (a.geometricSub b).rem ∧
    ((a.shift4 n).geometricSub (b.shift4 m)).blade % 4 = (a.geometricSub b).blade % 4 := by
  unfold geometricSub shift4
  simp only
  have key : ∀ d : Int, wrap4 ((((a.blade + 4 * n : Nat) : Int) - ((b.blade + 4 * m : Nat) : Int)) + d) % 4
      = wrap4 (((a.blade : Int) - (b.blade : Int)) + d) % 4 := by
    intro d
    have : (((a.blade + 4 * n : Nat) : Int) - ((b.blade + 4 * m : Nat) : Int)) + d
        = ((a.blade : Int) - (b.blade : Int) + d) + 4 * ((n : Int) - (m : Int)) := by push_cast; omega
    rw [this]; exact wrap4_shift_mod _ _
  split
  · refine ⟨rfl, ?_⟩
    simpa using key 0
  · rw [normalizeBoundaries_eq, normalizeBoundaries_eq]
    refine ⟨rfl, ?_⟩
    simp only
    split
    · have := key (-1)
      simp only [Int.add_neg_one] at this
      omega
    · have := key 0
      simp only [Int.add_zero] at this
      omega

/-- the grade angle is a function of `blade mod 4` and the remainder -/
theorem gradeAngle_congr {x y : Angle F} (hr : x.rem = y.rem) (hb : x.blade % 4 = y.blade % 4) :
    x.gradeAngle = y.gradeAngle := by
  unfold gradeAngle grade; rw [hr, hb]

theorem gradeAngle_shift4 (a : Angle F) (n : Nat) : (a.shift4 n).gradeAngle = a.gradeAngle :=
  gradeAngle_congr rfl (by simp [shift4])

/-- **the key fact of dimension freedom**: the grade angle of a difference is the same value of `F` whatever multiples of
    four quarter turns are added to the operands -/
theorem sub_gradeAngle_shift4 (a b : Angle F) (n m : Nat) :
    ((a.shift4 n).sub (b.shift4 m)).gradeAngle = (a.sub b).gradeAngle := by
  have h := geometricSub_shift4 a b n m
  exact gradeAngle_congr h.1 h.2

theorem project_shift4 (a onto : Angle F) (n m : Nat) :
    (a.shift4 n).project (onto.shift4 m) = a.project onto := by
  unfold project; rw [sub_gradeAngle_shift4]

theorem grade_shift4 (a : Angle F) (n : Nat) : (a.shift4 n).grade = a.grade := by simp [grade, shift4]

end Angle

namespace Geonum

def shift (g : Geonum F) (k : Nat) : Geonum F := ⟨g.mag, g.angle.shift k⟩
def shift4 (g : Geonum F) (n : Nat) : Geonum F := ⟨g.mag, g.angle.shift4 n⟩

theorem shift4_eq_shift (g : Geonum F) (n : Nat) : g.shift4 n = g.shift (4 * n) := rfl

end Geonum
end GeonumModel
