/-
  GeonumModel.Lemmas.FloatCartesian — B-tier for the rescaled branch of `Geonum::new_from_cartesian` (fix 9118133): when the sum of
  squares is not a normal number the magnitude is computed as `s·√((x/s)² + (y/s)²)` with `s = max(|x|, |y|)`; in rounded arithmetic this is
  the true length `√(x² + y²)` to within `12·2⁻⁵³` relative (+ the subnormal absolute error), for every finite non-zero vector.
-/
import GeonumModel.Lemmas.SumMagFloat
import GeonumModel.Lemmas.AngleNewTotal

set_option linter.unusedSectionVars false
set_option linter.unusedVariables false

namespace GeonumModel
open FloatLike FloatSpec
variable {F : Type} [FloatSpec F]
namespace Geonum

theorem sq_le_one' {p : ℝ} (h : |p| ≤ 1) : p * p ≤ 1 := by rw [abs_le] at h; nlinarith

/-- rescaling identity -/
theorem scale_sq {x y S : ℝ} (hS : S ≠ 0) : x * x + y * y = S ^ 2 * (x / S * (x / S) + y / S * (y / S)) := by
  field_simp

/-- one rounding of a value of size at most one -/
theorem rc1 {a b ε τ : ℝ} (hε0 : 0 < ε) (hτ : τ ≤ ε / 100) (hb : |b| ≤ 1) (h : |a - b| ≤ |b| * ε + τ) : |a - b| ≤ 101 / 100 * ε := by
  have : |b| * ε ≤ 1 * ε := mul_le_mul_of_nonneg_right hb (le_of_lt hε0)
  linarith

/-- squares of two nearby numbers of size about one -/
theorem sq_close {a b ε : ℝ} (hε0 : 0 < ε) (hε1 : ε ≤ 1 / 1000) (hb : |b| ≤ 1) (hab : |a - b| ≤ 101 / 100 * ε) :
    |a * a - b * b| ≤ 21 / 10 * ε := by
  have e : a * a - b * b = (a - b) * (a + b) := by ring
  rw [e, abs_mul]
  have h2 : |a + b| ≤ 2 + 2 * ε := by
    rw [abs_le] at hb hab ⊢; constructor <;> linarith [hab.1, hab.2]
  calc |a - b| * |a + b| ≤ (101 / 100 * ε) * (2 + 2 * ε) := mul_le_mul hab h2 (abs_nonneg _) (by positivity)
    _ ≤ 21 / 10 * ε := by nlinarith

/-- a rounded square against the square of the nearby exact value -/
theorem rnd_sq {A a b ε τ : ℝ} (hε0 : 0 < ε) (hε1 : ε ≤ 1 / 1000) (hτ0 : 0 < τ) (hτ : τ ≤ ε / 100) (hb : |b| ≤ 1)
    (hab : |a * a - b * b| ≤ 21 / 10 * ε) (hA : |A - a * a| ≤ |a * a| * ε + τ) : |A - b * b| ≤ 32 / 10 * ε := by
  have hb2 : b * b ≤ 1 := by rw [abs_le] at hb; nlinarith
  have haa : |a * a| ≤ 1 + 3 * ε := by
    rw [abs_le] at hab; rw [abs_of_nonneg (mul_self_nonneg a)]; linarith [hab.2]
  have h1 : |a * a| * ε ≤ (1 + 3 * ε) * ε := mul_le_mul_of_nonneg_right haa (le_of_lt hε0)
  have e : A - b * b = (A - a * a) + (a * a - b * b) := by ring
  rw [e]; have := abs_add_le (A - a * a) (a * a - b * b)
  nlinarith

/-- the rounded sum of the two rounded squares against `Q = p² + q² ∈ [1, 2]` -/
theorem rnd_sum {t uu vv pp qq ε τ : ℝ} (hε0 : 0 < ε) (hε1 : ε ≤ 1 / 1000) (hτ0 : 0 < τ) (hτ : τ ≤ ε / 100)
    (hQ2 : pp + qq ≤ 2) (hQ0 : 0 ≤ pp + qq) (huu : |uu - pp| ≤ 32 / 10 * ε) (hvv : |vv - qq| ≤ 32 / 10 * ε)
    (ht : |t - (uu + vv)| ≤ |uu + vv| * ε + τ) : |t - (pp + qq)| ≤ 85 / 10 * ε := by
  have hsum : |uu + vv - (pp + qq)| ≤ 64 / 10 * ε := by
    have e : uu + vv - (pp + qq) = (uu - pp) + (vv - qq) := by ring
    rw [e]; have := abs_add_le (uu - pp) (vv - qq); linarith
  have hsumb : |uu + vv| ≤ 2 + 7 * ε := by
    rw [abs_le] at hsum ⊢; constructor <;> linarith [hsum.1, hsum.2]
  have h1 : |uu + vv| * ε ≤ (2 + 7 * ε) * ε := mul_le_mul_of_nonneg_right hsumb (le_of_lt hε0)
  have e : t - (pp + qq) = (t - (uu + vv)) + (uu + vv - (pp + qq)) := by ring
  rw [e]; have := abs_add_le (t - (uu + vv)) (uu + vv - (pp + qq))
  nlinarith

/-- the rounded square root of `t ≈ Q`, `Q ∈ [1, 2]` -/
theorem rnd_sqrt {w t Q ε τ : ℝ} (hε0 : 0 < ε) (hε1 : ε ≤ 1 / 1000) (hτ0 : 0 < τ) (hτ : τ ≤ ε / 100)
    (hQ1 : 1 ≤ Q) (hQ2 : Q ≤ 2) (ht0 : 0 ≤ t) (htQ : |t - Q| ≤ 85 / 10 * ε)
    (hw : |w - Real.sqrt t| ≤ |Real.sqrt t| * ε + τ) : |w - Real.sqrt Q| ≤ 9 * ε := by
  have hQ0 : 0 ≤ Q := by linarith
  have hsQ1 : 1 ≤ Real.sqrt Q := by rw [show (1:ℝ) = Real.sqrt 1 by simp]; exact Real.sqrt_le_sqrt hQ1
  have ht1 : (99 / 100) ^ 2 ≤ t := by rw [abs_le] at htQ; nlinarith [htQ.1]
  have hst1 : 99 / 100 ≤ Real.sqrt t := by
    have : Real.sqrt ((99 / 100) ^ 2) ≤ Real.sqrt t := Real.sqrt_le_sqrt ht1
    rwa [Real.sqrt_sq (by norm_num)] at this
  have hdiff : |Real.sqrt t - Real.sqrt Q| ≤ 43 / 10 * ε := by
    have hmul : (Real.sqrt t - Real.sqrt Q) * (Real.sqrt t + Real.sqrt Q) = t - Q := by
      have h1 := Real.mul_self_sqrt ht0; have h2 := Real.mul_self_sqrt hQ0; nlinarith
    have hden : 199 / 100 ≤ Real.sqrt t + Real.sqrt Q := by linarith
    have habs : |Real.sqrt t - Real.sqrt Q| * (Real.sqrt t + Real.sqrt Q) = |t - Q| := by
      rw [← hmul, abs_mul, abs_of_pos (by linarith : 0 < Real.sqrt t + Real.sqrt Q)]
    have h3 : |Real.sqrt t - Real.sqrt Q| * (199 / 100) ≤ 85 / 10 * ε := by
      calc |Real.sqrt t - Real.sqrt Q| * (199 / 100) ≤ |Real.sqrt t - Real.sqrt Q| * (Real.sqrt t + Real.sqrt Q) :=
            mul_le_mul_of_nonneg_left hden (abs_nonneg _)
        _ = |t - Q| := habs
        _ ≤ 85 / 10 * ε := htQ
    nlinarith [abs_nonneg (Real.sqrt t - Real.sqrt Q)]
  have hsQ2 : Real.sqrt Q ≤ 3 / 2 := by
    have : Real.sqrt Q ≤ Real.sqrt ((3 / 2) ^ 2) := Real.sqrt_le_sqrt (by nlinarith)
    rwa [Real.sqrt_sq (by norm_num)] at this
  have hstb : |Real.sqrt t| ≤ 16 / 10 := by
    rw [abs_of_nonneg (Real.sqrt_nonneg t)]; rw [abs_le] at hdiff; linarith [hdiff.2]
  have e : w - Real.sqrt Q = (w - Real.sqrt t) + (Real.sqrt t - Real.sqrt Q) := by ring
  rw [e]
  have := abs_add_le (w - Real.sqrt t) (Real.sqrt t - Real.sqrt Q)
  have h4 : |Real.sqrt t| * ε ≤ 16 / 10 * ε := mul_le_mul_of_nonneg_right hstb (le_of_lt hε0)
  linarith

/-- pure real arithmetic: the unit-scale part `w ≈ √(p² + q²)` for `|p|,|q| ≤ 1 ≤ p² + q²` through its six roundings -/
theorem unit_hypot_real {p q u v uu vv t w ε τ : ℝ} (hε0 : 0 < ε) (hε1 : ε ≤ 1 / 1000) (hτ0 : 0 < τ) (hτ : τ ≤ ε / 100)
    (hp : |p| ≤ 1) (hq : |q| ≤ 1) (hmax : 1 ≤ p * p + q * q)
    (hu : |u - p| ≤ |p| * ε + τ) (hv : |v - q| ≤ |q| * ε + τ)
    (huu : |uu - u * u| ≤ |u * u| * ε + τ) (hvv : |vv - v * v| ≤ |v * v| * ε + τ)
    (ht : |t - (uu + vv)| ≤ |uu + vv| * ε + τ)
    (hw : |w - Real.sqrt t| ≤ |Real.sqrt t| * ε + τ) (ht0 : 0 ≤ t) :
    |w - Real.sqrt (p * p + q * q)| ≤ 9 * ε := by
  have hu' := rc1 hε0 hτ hp hu
  have hv' := rc1 hε0 hτ hq hv
  have huu3 := rnd_sq hε0 hε1 hτ0 hτ hp (sq_close hε0 hε1 hp hu') huu
  have hvv3 := rnd_sq hε0 hε1 hτ0 hτ hq (sq_close hε0 hε1 hq hv') hvv
  have hp2 : p * p ≤ 1 := by rw [abs_le] at hp; nlinarith
  have hq2 : q * q ≤ 1 := by rw [abs_le] at hq; nlinarith
  have htQ := rnd_sum hε0 hε1 hτ0 hτ (by linarith) (by linarith) huu3 hvv3 ht
  exact rnd_sqrt hε0 hε1 hτ0 hτ hmax (by linarith) ht0 htQ hw


/-- **the rescaled branch of `Geonum::new_from_cartesian` in rounded arithmetic**: for every finite vector with `0 < max(|x|,|y|) ≤ 1e120`,
    `s·√((x/s)² + (y/s)²)` with `s = max(|x|,|y|)` is finite and is the true length `√(x² + y²)` to within `11·2⁻⁵³` relative plus the
    subnormal absolute error `2⁻¹⁰⁷⁵` — whatever the scale (no overflow of the squares, no loss of a tiny vector) -/
theorem rescaled_mag_float {x y : F} (hx : Fin x) (hy : Fin y) (hs0 : 0 < max |val x| |val y|) (hs1 : max |val x| |val y| ≤ 10 ^ 120) :
    Fin (fmul (fmax (fabs x) (fabs y)) (sqrt (fadd (fmul (fdiv x (fmax (fabs x) (fabs y))) (fdiv x (fmax (fabs x) (fabs y))))
          (fmul (fdiv y (fmax (fabs x) (fabs y))) (fdiv y (fmax (fabs x) (fabs y))))))) ∧
    |val (fmul (fmax (fabs x) (fabs y)) (sqrt (fadd (fmul (fdiv x (fmax (fabs x) (fabs y))) (fdiv x (fmax (fabs x) (fabs y))))
          (fmul (fdiv y (fmax (fabs x) (fabs y))) (fdiv y (fmax (fabs x) (fabs y)))))))
        - Real.sqrt (val x * val x + val y * val y)|
      ≤ Real.sqrt (val x * val x + val y * val y) * (11 * (1 / 2 ^ 53)) + 1 / 2 ^ 1075 := by
  obtain ⟨hfax, hvax⟩ := fabs_spec hx
  obtain ⟨hfay, hvay⟩ := fabs_spec hy
  obtain ⟨hfs, hvs⟩ := fmax_spec hfax hfay
  rw [hvax, hvay] at hvs
  generalize fmax (fabs x) (fabs y) = sF at *
  obtain ⟨S, hS⟩ : ∃ S : ℝ, S = max |val x| |val y| := ⟨_, rfl⟩
  rw [← hS] at hvs hs0 hs1
  have hSx : |val x| ≤ S := by rw [hS]; exact le_max_left _ _
  have hSy : |val y| ≤ S := by rw [hS]; exact le_max_right _ _
  have hSne : val sF ≠ 0 := by rw [hvs]; exact ne_of_gt hs0
  -- p = x/S, q = y/S
  have hp1 : |val x / S| ≤ 1 := by rw [abs_div, abs_of_pos hs0, div_le_one hs0]; exact hSx
  have hq1 : |val y / S| ≤ 1 := by rw [abs_div, abs_of_pos hs0, div_le_one hs0]; exact hSy
  obtain ⟨hfu, hvu⟩ := fdiv_spec hx hfs hSne (by rw [hvs]; apply inRange_of_abs_le_1000; linarith)
  obtain ⟨hfv, hvv⟩ := fdiv_spec hy hfs hSne (by rw [hvs]; apply inRange_of_abs_le_1000; linarith)
  rw [hvs] at hvu hvv
  have eu := rnd_err (F := F) (val x / S); rw [← hvu] at eu
  have ev := rnd_err (F := F) (val y / S); rw [← hvv] at ev
  -- constants
  obtain ⟨ε, hε⟩ : ∃ ε : ℝ, ε = 1 / 2 ^ 53 := ⟨_, rfl⟩
  obtain ⟨τ, hτ⟩ : ∃ τ : ℝ, τ = 1 / 2 ^ 1075 := ⟨_, rfl⟩
  have hε0 : 0 < ε := by rw [hε]; positivity
  have hε1 : ε ≤ 1 / 1000 := by rw [hε]; norm_num
  have hτ0 : 0 < τ := by rw [hτ]; positivity
  have hτε : τ ≤ ε / 100 := by
    have h1 : τ ≤ 1 / 10 ^ 300 := by rw [hτ]; exact Angle.tiny_1075_300
    have h2 : (1:ℝ) / 10 ^ 300 ≤ 1 / 10 ^ 20 := one_div_le_one_div_of_le (by positivity) (pow_le_pow_right₀ (by norm_num) (by norm_num))
    have h3 : (1:ℝ) / 10 ^ 20 ≤ ε / 100 := by rw [hε]; norm_num
    linarith
  have e53 : ∀ z : ℝ, z / 2 ^ 53 = z * ε := fun z => by rw [hε]; ring
  rw [e53, ← hτ] at eu ev
  have hub : |val (fdiv x sF)| ≤ 2 := by
    have := rc1 hε0 hτε hp1 eu
    rw [abs_le] at this hp1 ⊢; constructor <;> linarith [this.1, this.2]
  have hvb : |val (fdiv y sF)| ≤ 2 := by
    have := rc1 hε0 hτε hq1 ev
    rw [abs_le] at this hq1 ⊢; constructor <;> linarith [this.1, this.2]
  have sqr : ∀ {a : F}, Fin a → |val a| ≤ 2 → Fin (fmul a a) ∧ val (fmul a a) = rnd (F := F) (val a * val a) ∧ 0 ≤ val (fmul a a)
      ∧ val (fmul a a) ≤ 9 := by
    intro a ha hab
    have h4 : val a * val a ≤ 4 := by rw [abs_le] at hab; nlinarith
    obtain ⟨hf, hv⟩ := fmul_spec ha ha (by apply inRange_of_abs_le_1000; rw [abs_of_nonneg (mul_self_nonneg _)]; linarith)
    refine ⟨hf, hv, by rw [hv]; exact rnd_nonneg (mul_self_nonneg _), ?_⟩
    rw [hv]; have := rnd_ub (F := F) (mul_self_nonneg (val a)); linarith
  obtain ⟨hfuu, hvuu, huu0, huu9⟩ := sqr hfu hub
  obtain ⟨hfvv, hvvv, hvv0, hvv9⟩ := sqr hfv hvb
  have euu := rnd_err (F := F) (val (fdiv x sF) * val (fdiv x sF)); rw [← hvuu, e53, ← hτ] at euu
  have evv := rnd_err (F := F) (val (fdiv y sF) * val (fdiv y sF)); rw [← hvvv, e53, ← hτ] at evv
  obtain ⟨hft, hvt⟩ := fadd_spec hfuu hfvv (by apply inRange_of_abs_le_1000; rw [abs_of_nonneg (by linarith)]; linarith)
  have et := rnd_err (F := F) (val (fmul (fdiv x sF) (fdiv x sF)) + val (fmul (fdiv y sF) (fdiv y sF))); rw [← hvt, e53, ← hτ] at et
  have ht0 : 0 ≤ val (fadd (fmul (fdiv x sF) (fdiv x sF)) (fmul (fdiv y sF) (fdiv y sF))) := by
    rw [hvt]; exact rnd_nonneg (by linarith)
  obtain ⟨hfw, hvw⟩ := sqrt_spec hft ht0
  have ew := rnd_err (F := F) (Real.sqrt (val (fadd (fmul (fdiv x sF) (fdiv x sF)) (fmul (fdiv y sF) (fdiv y sF))))); rw [← hvw, e53, ← hτ] at ew
  -- p² + q² ≥ 1: the larger component is ±S
  have hmax : 1 ≤ val x / S * (val x / S) + val y / S * (val y / S) := by
    have hx2 : val x / S * (val x / S) = |val x| * |val x| / (S * S) := by rw [abs_mul_abs_self]; field_simp
    have hy2 : val y / S * (val y / S) = |val y| * |val y| / (S * S) := by rw [abs_mul_abs_self]; field_simp
    rw [hx2, hy2, ← add_div, le_div_iff₀ (by positivity), one_mul]
    rcases max_choice |val x| |val y| with h | h
    · have hSe : S = |val x| := by rw [hS, h]
      have hyy := mul_nonneg (abs_nonneg (val y)) (abs_nonneg (val y))
      rw [hSe]; linarith only [hyy]
    · have hSe : S = |val y| := by rw [hS, h]
      have hxx := mul_nonneg (abs_nonneg (val x)) (abs_nonneg (val x))
      rw [hSe]; linarith only [hxx]
  have hunit := unit_hypot_real hε0 hε1 hτ0 hτε hp1 hq1 hmax eu ev euu evv et ew ht0
  -- the true length
  set Q := val x / S * (val x / S) + val y / S * (val y / S) with hQ
  have hL : Real.sqrt (val x * val x + val y * val y) = S * Real.sqrt Q := by
    rw [scale_sq (x := val x) (y := val y) (ne_of_gt hs0), Real.sqrt_mul (sq_nonneg _), Real.sqrt_sq (le_of_lt hs0)]
  have hQ2 : Q ≤ 2 := by
    have h1 := sq_le_one' hp1
    have h2 := sq_le_one' hq1
    rw [hQ]; linarith only [h1, h2]
  have hsQ1 : 1 ≤ Real.sqrt Q := by rw [show (1:ℝ) = Real.sqrt 1 by simp]; exact Real.sqrt_le_sqrt hmax
  have hsQ2 : Real.sqrt Q ≤ 3 / 2 := by
    have : Real.sqrt Q ≤ Real.sqrt ((3 / 2) ^ 2) := Real.sqrt_le_sqrt (by linarith only [hQ2, show (2:ℝ) ≤ (3 / 2) ^ 2 by norm_num])
    rwa [Real.sqrt_sq (by norm_num)] at this
  have hw0 : 0 ≤ val (sqrt (fadd (fmul (fdiv x sF) (fdiv x sF)) (fmul (fdiv y sF) (fdiv y sF)))) := by
    rw [hvw]; exact rnd_nonneg (Real.sqrt_nonneg _)
  have hε15 : ε ≤ 1 / 1000 := hε1
  have hw2 : val (sqrt (fadd (fmul (fdiv x sF) (fdiv x sF)) (fmul (fdiv y sF) (fdiv y sF)))) ≤ 16 / 10 := by
    rw [abs_le] at hunit; linarith only [hunit.2, hsQ2, hε15]
  -- the final product
  obtain ⟨hfm, hvm⟩ := fmul_spec hfs hfw (by
    rw [hvs]; apply inRange_of_le
    rw [abs_of_nonneg (mul_nonneg (le_of_lt hs0) hw0)]
    calc S * val (sqrt (fadd (fmul (fdiv x sF) (fdiv x sF)) (fmul (fdiv y sF) (fdiv y sF)))) ≤ 10 ^ 120 * 2 :=
          mul_le_mul hs1 (by linarith only [hw2]) hw0 (by positivity)
      _ ≤ 10 ^ 250 := by norm_num)
  rw [hvs] at hvm
  refine ⟨hfm, ?_⟩
  have em := rnd_err (F := F) (S * val (sqrt (fadd (fmul (fdiv x sF) (fdiv x sF)) (fmul (fdiv y sF) (fdiv y sF)))))
  rw [← hvm, e53, ← hτ, abs_of_nonneg (mul_nonneg (le_of_lt hs0) hw0)] at em
  generalize val (sqrt (fadd (fmul (fdiv x sF) (fdiv x sF)) (fmul (fdiv y sF) (fdiv y sF)))) = w at *
  rw [hL]
  have e : val (fmul sF (sqrt (fadd (fmul (fdiv x sF) (fdiv x sF)) (fmul (fdiv y sF) (fdiv y sF))))) - S * Real.sqrt Q
      = (val (fmul sF (sqrt (fadd (fmul (fdiv x sF) (fdiv x sF)) (fmul (fdiv y sF) (fdiv y sF))))) - S * w) + S * (w - Real.sqrt Q) := by ring
  rw [e]
  have h1 := abs_add_le (val (fmul sF (sqrt (fadd (fmul (fdiv x sF) (fdiv x sF)) (fmul (fdiv y sF) (fdiv y sF))))) - S * w) (S * (w - Real.sqrt Q))
  have h2 : |S * (w - Real.sqrt Q)| ≤ S * (9 * ε) := by
    rw [abs_mul, abs_of_pos hs0]; exact mul_le_mul_of_nonneg_left hunit (le_of_lt hs0)
  have h3 : S * w * ε ≤ S * (16 / 10) * ε := by
    have : S * w ≤ S * (16 / 10) := mul_le_mul_of_nonneg_left hw2 (le_of_lt hs0)
    exact mul_le_mul_of_nonneg_right this (le_of_lt hε0)
  have hSε : 0 < S * ε := mul_pos hs0 hε0
  have h5 : S * 1 ≤ S * Real.sqrt Q := mul_le_mul_of_nonneg_left hsQ1 (le_of_lt hs0)
  have h6 : S * 1 * (11 * ε) ≤ S * Real.sqrt Q * (11 * ε) := mul_le_mul_of_nonneg_right h5 (by linarith only [hε0])
  have e1 : S * (16 / 10) * ε = 16 / 10 * (S * ε) := by ring
  have e2 : S * (9 * ε) = 9 * (S * ε) := by ring
  have e3 : S * 1 * (11 * ε) = 11 * (S * ε) := by ring
  rw [← hε, ← hτ]
  rw [e1] at h3; rw [e2] at h2; rw [e3] at h6
  linarith only [h1, h2, h3, h6, em, hSε]


/-- pure real arithmetic of the direct branch: `S ≈ Q = x² + y²` with `S` at least the smallest normal number `N = 2^53·τ` -/
theorem direct_sum_real {xx yy a b S ε τ : ℝ} (hε0 : 0 < ε) (hε1 : ε ≤ 1 / 1000) (hτ0 : 0 < τ) (hxx : 0 ≤ xx) (hyy : 0 ≤ yy)
    (ha : |a - xx| ≤ xx * ε + τ) (hb : |b - yy| ≤ yy * ε + τ) (hab : 0 ≤ a + b) (hS : |S - (a + b)| ≤ (a + b) * ε + τ)
    (hN : τ ≤ ε * S) : |S - (xx + yy)| ≤ (xx + yy) * (6 * ε) := by
  rw [abs_le] at ha hb hS
  set Q := xx + yy with hQ
  have hQ0 : 0 ≤ Q := by linarith
  have habQ : a + b ≤ Q + (Q * ε + 2 * τ) := by rw [hQ]; linarith [ha.2, hb.2]
  have habQ' : Q - (Q * ε + 2 * τ) ≤ a + b := by rw [hQ]; linarith [ha.1, hb.1]
  have h1 : (a + b) * ε ≤ (Q + (Q * ε + 2 * τ)) * ε := mul_le_mul_of_nonneg_right habQ (le_of_lt hε0)
  have hQε : 0 ≤ Q * ε := mul_nonneg hQ0 (le_of_lt hε0)
  have h2 : Q * ε * ε ≤ Q * ε * (1 / 1000) := mul_le_mul_of_nonneg_left hε1 hQε
  have h3 : τ * ε ≤ τ * (1 / 1000) := mul_le_mul_of_nonneg_left hε1 (le_of_lt hτ0)
  -- S ≤ Q(1 + 2.01ε) + 3.01τ and τ ≤ εS
  have hSup : S ≤ Q + Q * ε * (2 + 1 / 1000) + 4 * τ := by nlinarith [hS.2]
  have hSε : ε * S ≤ ε * (Q + Q * ε * (2 + 1 / 1000) + 4 * τ) := mul_le_mul_of_nonneg_left hSup (le_of_lt hε0)
  have hτQ : τ ≤ Q * ε * (1 + 1 / 100) := by
    have h4 : 4 * τ * ε ≤ 4 * τ * (1 / 1000) := by nlinarith
    nlinarith
  rw [abs_le]
  constructor <;> nlinarith [hS.1, hS.2]

/-- `|√S − √Q| ≤ √Q·r` when `|S − Q| ≤ Q·r` -/
theorem sqrt_rel {S Q r : ℝ} (hS0 : 0 ≤ S) (hQ0 : 0 ≤ Q) (hr : 0 ≤ r) (h : |S - Q| ≤ Q * r) :
    |Real.sqrt S - Real.sqrt Q| ≤ Real.sqrt Q * r := by
  rcases eq_or_lt_of_le hQ0 with hq | hq
  · rw [← hq] at h ⊢
    have : S = 0 := by rw [zero_mul, sub_zero] at h; exact abs_eq_zero.mp (le_antisymm h (abs_nonneg _))
    rw [this]; simp
  have hsq : 0 < Real.sqrt Q := Real.sqrt_pos.mpr hq
  have hmul : (Real.sqrt S - Real.sqrt Q) * (Real.sqrt S + Real.sqrt Q) = S - Q := by
    have h1 := Real.mul_self_sqrt hS0; have h2 := Real.mul_self_sqrt hQ0; nlinarith
  have hden : Real.sqrt Q ≤ Real.sqrt S + Real.sqrt Q := by linarith [Real.sqrt_nonneg S]
  have habs : |Real.sqrt S - Real.sqrt Q| * (Real.sqrt S + Real.sqrt Q) = |S - Q| := by
    rw [← hmul, abs_mul, abs_of_pos (by linarith [Real.sqrt_nonneg S] : 0 < Real.sqrt S + Real.sqrt Q)]
  have h3 : |Real.sqrt S - Real.sqrt Q| * Real.sqrt Q ≤ Real.sqrt Q * Real.sqrt Q * r := by
    calc |Real.sqrt S - Real.sqrt Q| * Real.sqrt Q ≤ |Real.sqrt S - Real.sqrt Q| * (Real.sqrt S + Real.sqrt Q) :=
          mul_le_mul_of_nonneg_left hden (abs_nonneg _)
      _ = |S - Q| := habs
      _ ≤ Q * r := h
      _ = Real.sqrt Q * Real.sqrt Q * r := by rw [Real.mul_self_sqrt hQ0]
  have : |Real.sqrt S - Real.sqrt Q| * Real.sqrt Q ≤ (Real.sqrt Q * r) * Real.sqrt Q := by linarith [h3, show Real.sqrt Q * Real.sqrt Q * r = (Real.sqrt Q * r) * Real.sqrt Q by ring]
  exact le_of_mul_le_mul_right this hsq

/-- **the direct branch of `Geonum::new_from_cartesian` in rounded arithmetic**: when the sum of squares is a normal number the
    magnitude `√(x·x + y·y)` is the true length to within `8·2⁻⁵³` relative plus `2⁻¹⁰⁷⁵` -/
theorem direct_mag_float {x y : F} (hx : Fin x) (hy : Fin y) (hx1 : |val x| ≤ 10 ^ 120) (hy1 : |val y| ≤ 10 ^ 120)
    (hn : FloatLike.isNormal (fadd (fmul x x) (fmul y y)) = true) :
    Fin (sqrt (fadd (fmul x x) (fmul y y))) ∧
    |val (sqrt (fadd (fmul x x) (fmul y y))) - Real.sqrt (val x * val x + val y * val y)|
      ≤ Real.sqrt (val x * val x + val y * val y) * (8 * (1 / 2 ^ 53)) + 1 / 2 ^ 1075 := by
  have sq : ∀ {a : F}, Fin a → |val a| ≤ 10 ^ 120 → Fin (fmul a a) ∧ val (fmul a a) = rnd (F := F) (val a * val a) ∧
      0 ≤ val (fmul a a) ∧ val a * val a ≤ 10 ^ 240 := by
    intro a ha hab
    have h4 : val a * val a ≤ 10 ^ 240 := by
      have : val a * val a = |val a| * |val a| := (abs_mul_abs_self _).symm
      rw [this]
      calc |val a| * |val a| ≤ 10 ^ 120 * 10 ^ 120 := mul_le_mul hab hab (abs_nonneg _) (by positivity)
        _ = 10 ^ 240 := by norm_num
    obtain ⟨hf, hv⟩ := fmul_spec ha ha (inRange_of_le (by
      rw [abs_of_nonneg (mul_self_nonneg _)]
      calc val a * val a ≤ 10 ^ 240 := h4
        _ ≤ 10 ^ 250 := pow_le_pow_right₀ (by norm_num) (by norm_num)))
    exact ⟨hf, hv, by rw [hv]; exact rnd_nonneg (mul_self_nonneg _), h4⟩
  obtain ⟨hfa, hva, ha0, hxx⟩ := sq hx hx1
  obtain ⟨hfb, hvb, hb0, hyy⟩ := sq hy hy1
  have haub : val (fmul x x) ≤ 2 * 10 ^ 240 + 1 := by rw [hva]; have := rnd_ub (F := F) (mul_self_nonneg (val x)); linarith
  have hbub : val (fmul y y) ≤ 2 * 10 ^ 240 + 1 := by rw [hvb]; have := rnd_ub (F := F) (mul_self_nonneg (val y)); linarith
  obtain ⟨hfs, hvs⟩ := fadd_spec hfa hfb (inRange_of_le (by
    rw [abs_of_nonneg (by linarith)]
    have : (2:ℝ) * 10 ^ 240 + 1 + (2 * 10 ^ 240 + 1) ≤ 10 ^ 250 := by norm_num
    linarith))
  have hS0 : 0 ≤ val (fadd (fmul x x) (fmul y y)) := by rw [hvs]; exact rnd_nonneg (by linarith)
  obtain ⟨hfm, hvm⟩ := sqrt_spec hfs hS0
  refine ⟨hfm, ?_⟩
  have hnorm := (isNormal_spec hfs).mp hn
  rw [abs_of_nonneg hS0] at hnorm
  obtain ⟨ε, hε⟩ : ∃ ε : ℝ, ε = 1 / 2 ^ 53 := ⟨_, rfl⟩
  obtain ⟨τ, hτ⟩ : ∃ τ : ℝ, τ = 1 / 2 ^ 1075 := ⟨_, rfl⟩
  have hε0 : 0 < ε := by rw [hε]; positivity
  have hε1 : ε ≤ 1 / 1000 := by rw [hε]; norm_num
  have hτ0 : 0 < τ := by rw [hτ]; positivity
  have e53 : ∀ z : ℝ, z / 2 ^ 53 = z * ε := fun z => by rw [hε]; ring
  have ea := rnd_err (F := F) (val x * val x); rw [← hva, e53, ← hτ, abs_of_nonneg (mul_self_nonneg (val x))] at ea
  have eb := rnd_err (F := F) (val y * val y); rw [← hvb, e53, ← hτ, abs_of_nonneg (mul_self_nonneg (val y))] at eb
  have es := rnd_err (F := F) (val (fmul x x) + val (fmul y y))
  rw [← hvs, e53, ← hτ, abs_of_nonneg (by linarith : 0 ≤ val (fmul x x) + val (fmul y y))] at es
  have hN : τ ≤ ε * val (fadd (fmul x x) (fmul y y)) := by
    have : τ = ε * (1 / 2 ^ 1022) := by rw [hτ, hε, show (1075:ℕ) = 53 + 1022 by norm_num, pow_add]; field_simp
    rw [this]; exact mul_le_mul_of_nonneg_left hnorm (le_of_lt hε0)
  have hSQ := direct_sum_real hε0 hε1 hτ0 (mul_self_nonneg (val x)) (mul_self_nonneg (val y)) ea eb (by linarith) es hN
  have hQ0 : 0 ≤ val x * val x + val y * val y := add_nonneg (mul_self_nonneg _) (mul_self_nonneg _)
  have hroot := sqrt_rel hS0 hQ0 (by linarith) hSQ
  have em := rnd_err (F := F) (Real.sqrt (val (fadd (fmul x x) (fmul y y))))
  rw [← hvm, e53, ← hτ, abs_of_nonneg (Real.sqrt_nonneg (val (fadd (fmul x x) (fmul y y))))] at em
  generalize Real.sqrt (val x * val x + val y * val y) = L at *
  generalize Real.sqrt (val (fadd (fmul x x) (fmul y y))) = R at *
  generalize val (sqrt (fadd (fmul x x) (fmul y y))) = m at *
  rw [← hε, ← hτ]
  have hL0 : 0 ≤ L * ε := by
    have : 0 ≤ L := by
      rw [abs_le] at hroot
      by_contra hc; push Not at hc
      nlinarith [hroot.1, hroot.2]
    exact mul_nonneg this (le_of_lt hε0)
  rw [abs_le] at hroot em ⊢
  have hR : R ≤ L + L * (6 * ε) := by linarith [hroot.2]
  have hRε : R * ε ≤ (L + L * (6 * ε)) * ε := mul_le_mul_of_nonneg_right hR (le_of_lt hε0)
  have h6 : L * ε * (6 * ε) ≤ L * ε * (6 / 1000) := mul_le_mul_of_nonneg_left (by linarith) hL0
  constructor <;> nlinarith [hroot.1, hroot.2, em.1, em.2]

end Geonum
end GeonumModel
