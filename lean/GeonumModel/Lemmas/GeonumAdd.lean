/-
  GeonumModel.Lemmas.GeonumAdd — branch structure of `impl Add for Geonum` (G-tier) and magnitude facts (S-tier).
-/
import GeonumModel.Lemmas.AngleStep

set_option linter.unusedSectionVars false
set_option linter.unusedVariables false

namespace GeonumModel
open FloatLike
namespace Geonum

section G
variable {F : Type} [FloatLike F]

/-- the three tests of `Add for Geonum`, in source order -/
def sameAngle (a b : Geonum F) : Bool := a.angle.beq b.angle
def oppositeAngle (a b : Geonum F) : Bool :=
  (a.angle.add (Angle.new one one)).beq b.angle || (b.angle.add (Angle.new one one)).beq a.angle

/-- radicand of the general branch, as associated in the source -/
def radicand (a b : Geonum F) : F :=
  fadd (fadd (fmul a.mag a.mag) (fmul b.mag b.mag))
       (fmul (fmul (fmul two a.mag) b.mag) (FloatLike.cos (fsub b.angle.gradeAngle a.angle.gradeAngle)))

theorem add_same (a b : Geonum F) (h : sameAngle a b = true) : a.add b = ⟨fadd a.mag b.mag, a.angle⟩ := by
  unfold Geonum.add; unfold sameAngle at h; simp [h]

theorem add_opposite_cancel (a b : Geonum F) (h1 : sameAngle a b = false) (h2 : oppositeAngle a b = true)
    (h3 : flt (fabs (fsub a.mag b.mag)) e10 = true) :
    a.add b = ⟨zero, Angle.newWithBlade (a.angle.blade + b.angle.blade) zero one⟩ := by
  unfold Geonum.add; unfold sameAngle at h1; unfold oppositeAngle at h2; simp [h1, h2, h3]

theorem add_opposite_first (a b : Geonum F) (h1 : sameAngle a b = false) (h2 : oppositeAngle a b = true)
    (h3 : flt (fabs (fsub a.mag b.mag)) e10 = false) (h4 : flt zero (fsub a.mag b.mag) = true) :
    a.add b = ⟨fsub a.mag b.mag, a.angle⟩ := by
  unfold Geonum.add; unfold sameAngle at h1; unfold oppositeAngle at h2; simp [h1, h2, h3, h4]

theorem add_opposite_second (a b : Geonum F) (h1 : sameAngle a b = false) (h2 : oppositeAngle a b = true)
    (h3 : flt (fabs (fsub a.mag b.mag)) e10 = false) (h4 : flt zero (fsub a.mag b.mag) = false) :
    a.add b = ⟨fneg (fsub a.mag b.mag), b.angle⟩ := by
  unfold Geonum.add; unfold sameAngle at h1; unfold oppositeAngle at h2; simp [h1, h2, h3, h4]

/-- numerator / denominator of the direction of the general branch, as associated in the source -/
def oppSum (a b : Geonum F) : F :=
  fadd (fmul a.mag (FloatLike.sin a.angle.gradeAngle)) (fmul b.mag (FloatLike.sin b.angle.gradeAngle))
def adjSum (a b : Geonum F) : F :=
  fadd (fmul a.mag (FloatLike.cos a.angle.gradeAngle)) (fmul b.mag (FloatLike.cos b.angle.gradeAngle))

theorem add_general (a b : Geonum F) (h1 : sameAngle a b = false) (h2 : oppositeAngle a b = false) :
    a.add b = Geonum.newWithBlade (sqrt (fmax (radicand a b) zero)) (a.angle.blade + b.angle.blade)
      (fsub (FloatLike.atan2 (oppSum a b) (adjSum a b))
            (fdiv (fmul (FloatLike.ofNat (a.angle.blade + b.angle.blade)) pi) two)) pi := by
  unfold Geonum.add; unfold sameAngle at h1; unfold oppositeAngle at h2
  simp only [h1, h2, Bool.false_eq_true, if_false]
  rfl

theorem add_general_mag (a b : Geonum F) (h1 : sameAngle a b = false) (h2 : oppositeAngle a b = false) :
    (a.add b).mag = sqrt (fmax (radicand a b) zero) := by
  unfold Geonum.add; unfold sameAngle at h1; unfold oppositeAngle at h2
  simp only [h1, h2, Bool.false_eq_true, if_false]
  rfl

end G
end Geonum
end GeonumModel
