/-
  GeonumModel.Lemmas.FloatTrig — B-tier: rounding-error bounds through `grade_angle` and libm `cos`/`sin`, for any
  arithmetic satisfying `FloatSpec` (in particular binary64 under the stated contract).  Angles are measured with the TRUE π.
-/
import GeonumModel.Lemmas.GradeAngle
import GeonumModel.Lemmas.GeonumMag

set_option linter.unusedSectionVars false
set_option linter.unusedVariables false

namespace GeonumModel
open FloatLike FloatSpec
variable {F : Type} [FloatSpec F]
namespace Angle

/-- total angle in true radians -/
noncomputable def Tpi (a : Angle F) : ℝ := (a.blade : ℝ) * (Real.pi / 2) + val a.rem

theorem qp_close : |val (qp : F) - Real.pi / 2| ≤ 1 / 10 ^ 16 := by
  rw [val_qp]
  have h1 := piV_le (F := F); have h2 := piV_ge (F := F)
  rw [abs_le]; constructor <;> linarith

/-- the difference, measured with the true π: `T(b − a) = T b − T a + δ` modulo whole turns, `|δ| < 1e-10 + 2e-15` -/
theorem sub_true_total {a b : Angle F} (ha : a.Inv) (hb : b.Inv) :
    ∃ (δ : ℝ) (m : ℤ), |δ| < val (e10 : F) + 2 / 10 ^ 15 ∧
      Tpi (b.geometricSub a) = Tpi b - Tpi a + δ + (m : ℝ) * (2 * Real.pi) := by
  obtain ⟨_, s, c, hs, hc, hbl, htot, _, _⟩ := geometricSub_spec hb ha
  set D : ℤ := (b.blade : ℤ) - (a.blade : ℤ) + s with hD
  obtain ⟨m, hm⟩ : ∃ m : ℤ, (wrap4 D : ℤ) = D + 4 * m := by
    have := wrap4_mod D; exact ⟨((wrap4 D : ℤ) - D) / 4, by omega⟩
  have hblr : ((b.geometricSub a).blade : ℝ) = (b.blade : ℝ) - (a.blade : ℝ) + (s : ℝ) + 4 * (m : ℝ) + (c : ℝ) := by
    have : ((b.geometricSub a).blade : ℤ) = (b.blade : ℤ) - (a.blade : ℤ) + s + 4 * m + c := by
      rw [hbl]; push_cast; rw [hm]
    exact_mod_cast this
  have hq := qp_close (F := F)
  have hcs : |((c : ℝ) + (s : ℝ))| ≤ 1 := by
    rcases hs with rfl | rfl <;> rcases hc with rfl | rfl <;> norm_num
  set δ0 := val (b.geometricSub a).rem + ((c : ℝ) + (s : ℝ)) * val (qp : F) - (val b.rem - val a.rem) with hδ0
  refine ⟨δ0 + ((c : ℝ) + (s : ℝ)) * (Real.pi / 2 - val (qp : F)), m, ?_, ?_⟩
  · have h1 : |((c : ℝ) + (s : ℝ)) * (Real.pi / 2 - val (qp : F))| ≤ 1 / 10 ^ 16 := by
      rw [abs_mul]
      calc |((c : ℝ) + (s : ℝ))| * |Real.pi / 2 - val (qp : F)| ≤ 1 * (1 / 10 ^ 16) := by
            apply mul_le_mul hcs (by rw [abs_sub_comm]; exact hq) (abs_nonneg _) (by norm_num)
        _ = 1 / 10 ^ 16 := one_mul _
    have := abs_add_le δ0 (((c : ℝ) + (s : ℝ)) * (Real.pi / 2 - val (qp : F)))
    have : (1:ℝ) / 10 ^ 15 + 1 / 10 ^ 16 ≤ 2 / 10 ^ 15 := by norm_num
    linarith
  · unfold Tpi; rw [hblr, hδ0]; ring

/-- cosine and sine of the float grade angle agree with those of the true total to within 5e-15 -/
theorem trig_gradeAngle_true {x : Angle F} (hx : x.Inv) :
    |Real.cos (val x.gradeAngle) - Real.cos (Tpi x)| ≤ 5 / 10 ^ 15 ∧
    |Real.sin (val x.gradeAngle) - Real.sin (Tpi x)| ≤ 5 / 10 ^ 15 := by
  obtain ⟨_, hga, _, _⟩ := gradeAngle_spec hx
  have hq := qp_close (F := F)
  have hg3 : (x.grade : ℝ) ≤ 3 := by
    have : x.grade ≤ 3 := by unfold grade; omega
    exact_mod_cast this
  have hg0 : (0:ℝ) ≤ x.grade := Nat.cast_nonneg _
  -- reduce the total by whole turns
  have hred : Tpi x = ((x.grade : ℝ) * (Real.pi / 2) + val x.rem) + ((x.blade / 4 : ℕ) : ℝ) * (2 * Real.pi) := by
    unfold Tpi grade
    have h : x.blade = 4 * (x.blade / 4) + x.blade % 4 := (Nat.div_add_mod x.blade 4).symm
    have hr : (x.blade : ℝ) = 4 * ((x.blade / 4 : ℕ) : ℝ) + ((x.blade % 4 : ℕ) : ℝ) := by exact_mod_cast h
    rw [hr]; ring
  have hcos : Real.cos (Tpi x) = Real.cos ((x.grade : ℝ) * (Real.pi / 2) + val x.rem) := by
    rw [hred]; exact Real.cos_add_nat_mul_two_pi _ _
  have hsin : Real.sin (Tpi x) = Real.sin ((x.grade : ℝ) * (Real.pi / 2) + val x.rem) := by
    rw [hred]; exact Real.sin_add_nat_mul_two_pi _ _
  have hdiff : |val x.gradeAngle - ((x.grade : ℝ) * (Real.pi / 2) + val x.rem)| ≤ 5 / 10 ^ 15 := by
    have e : val x.gradeAngle - ((x.grade : ℝ) * (Real.pi / 2) + val x.rem)
        = (val x.gradeAngle - ((x.grade : ℝ) * val (qp : F) + val x.rem)) + (x.grade : ℝ) * (val (qp : F) - Real.pi / 2) := by ring
    rw [e]
    have h2 : |(x.grade : ℝ) * (val (qp : F) - Real.pi / 2)| ≤ 3 * (1 / 10 ^ 16) := by
      rw [abs_mul, abs_of_nonneg hg0]
      exact mul_le_mul hg3 hq (abs_nonneg _) (by norm_num)
    have := abs_add_le (val x.gradeAngle - ((x.grade : ℝ) * val (qp : F) + val x.rem)) ((x.grade : ℝ) * (val (qp : F) - Real.pi / 2))
    have : (4:ℝ) / 10 ^ 15 + 3 * (1 / 10 ^ 16) ≤ 5 / 10 ^ 15 := by norm_num
    linarith
  rw [hcos, hsin]
  exact ⟨le_trans (Real.abs_cos_sub_cos_le _ _) hdiff, le_trans (Real.abs_sin_sub_sin_le _ _) hdiff⟩

/-- **the libm cosine of the float angle difference is the cosine of the true difference of totals** to within
    `1e-10 + 8e-15` (snap tolerance + roundings of the subtraction and of `grade_angle` + the libm error) -/
theorem cos_sub_float {a b : Angle F} (ha : a.Inv) (hb : b.Inv) :
    |val (FloatLike.cos (b.geometricSub a).gradeAngle) - Real.cos (Tpi b - Tpi a)| ≤ val (e10 : F) + 8 / 10 ^ 15 ∧
    |val (FloatLike.sin (b.geometricSub a).gradeAngle) - Real.sin (Tpi b - Tpi a)| ≤ val (e10 : F) + 8 / 10 ^ 15 := by
  have hd := geometricSub_inv hb ha
  obtain ⟨hfg, _, _, _⟩ := gradeAngle_spec hd
  obtain ⟨_, _, hcerr⟩ := cos_spec hfg
  obtain ⟨_, _, hserr⟩ := sin_spec hfg
  have het := errTrig_le (F := F)
  obtain ⟨hc2, hs2⟩ := trig_gradeAngle_true hd
  obtain ⟨δ, m, hδ, hT⟩ := sub_true_total ha hb
  have hc3 : Real.cos (Tpi (b.geometricSub a)) = Real.cos (Tpi b - Tpi a + δ) := by
    rw [hT]; exact Real.cos_add_int_mul_two_pi _ _
  have hs3 : Real.sin (Tpi (b.geometricSub a)) = Real.sin (Tpi b - Tpi a + δ) := by
    rw [hT]; exact Real.sin_add_int_mul_two_pi _ _
  have hc4 : |Real.cos (Tpi b - Tpi a + δ) - Real.cos (Tpi b - Tpi a)| ≤ |δ| := by
    have := Real.abs_cos_sub_cos_le (Tpi b - Tpi a + δ) (Tpi b - Tpi a); simpa using this
  have hs4 : |Real.sin (Tpi b - Tpi a + δ) - Real.sin (Tpi b - Tpi a)| ≤ |δ| := by
    have := Real.abs_sin_sub_sin_le (Tpi b - Tpi a + δ) (Tpi b - Tpi a); simpa using this
  rw [hc3] at hc2; rw [hs3] at hs2
  have hnum : (1:ℝ) / 10 ^ 15 + 5 / 10 ^ 15 + 2 / 10 ^ 15 ≤ 8 / 10 ^ 15 := by norm_num
  constructor
  · rw [abs_le] at hcerr hc2 hc4 ⊢
    rw [abs_lt] at hδ
    have hd1 : |δ| < val (e10 : F) + 2 / 10 ^ 15 := by rw [abs_lt]; exact hδ
    constructor <;> linarith [hcerr.1, hcerr.2, hc2.1, hc2.2, hc4.1, hc4.2]
  · rw [abs_le] at hserr hs2 hs4 ⊢
    rw [abs_lt] at hδ
    have hd1 : |δ| < val (e10 : F) + 2 / 10 ^ 15 := by rw [abs_lt]; exact hδ
    constructor <;> linarith [hserr.1, hserr.2, hs2.1, hs2.2, hs4.1, hs4.2]

end Angle
namespace Geonum
open Angle

/-- the dot value in rounded arithmetic (property theorem `C09.dot_value_float`) -/
theorem dot_value_float {a b : Geonum F} (ha : a.angle.Inv) (hb : b.angle.Inv) (hma : a.MagDom) (hmb : b.MagDom) :
    |val (fmul (fmul a.mag b.mag) (FloatLike.cos (b.angle.geometricSub a.angle).gradeAngle))
        - val a.mag * val b.mag * Real.cos (Angle.Tpi b.angle - Angle.Tpi a.angle)|
      ≤ val a.mag * val b.mag * (val (e10 : F) + 1 / 10 ^ 14) + 1 / 10 ^ 29 := by
  obtain ⟨haf, ha0, ha1⟩ := hma
  obtain ⟨hbf, hb0, hb1⟩ := hmb
  have hd := geometricSub_inv hb ha
  obtain ⟨hfg, _, _, _⟩ := gradeAngle_spec hd
  obtain ⟨hfc, hc1, _⟩ := cos_spec hfg
  obtain ⟨hcos, _⟩ := cos_sub_float ha hb
  obtain ⟨hfp, hp0, hp1⟩ := mul_dom haf hbf ha0 hb0 ha1 hb1
  have hpv : val (fmul a.mag b.mag) = rnd (F := F) (val a.mag * val b.mag) := by
    have hr : InRange (F := F) (val a.mag * val b.mag) := inRange_of_le (by
      rw [abs_of_nonneg (mul_nonneg ha0 hb0)]
      have : val a.mag * val b.mag ≤ 10 ^ 100 * 10 ^ 100 := mul_le_mul ha1 hb1 hb0 (by positivity)
      norm_num at this ⊢; linarith)
    exact (fmul_spec haf hbf hr).2
  set m := val a.mag * val b.mag with hm
  have hm0 : 0 ≤ m := mul_nonneg ha0 hb0
  set P := val (fmul a.mag b.mag) with hP
  set cv := val (FloatLike.cos (b.angle.geometricSub a.angle).gradeAngle) with hcv
  have hPerr : |P - m| ≤ m / 2 ^ 53 + 1 / 10 ^ 30 := by
    rw [hpv]; have := rnd_close (F := F) m; rwa [abs_of_nonneg hm0] at this
  have hPcv : |P * cv| ≤ P := by
    rw [abs_mul, abs_of_nonneg hp0]
    calc P * |cv| ≤ P * 1 := mul_le_mul_of_nonneg_left hc1 hp0
      _ = P := mul_one _
  obtain ⟨_, hvv⟩ := fmul_spec hfp hfc (inRange_mono (by rw [abs_of_nonneg hp0]; exact hPcv) (inRange_val hfp))
  have hVerr : |rnd (F := F) (P * cv) - P * cv| ≤ P / 2 ^ 53 + 1 / 10 ^ 30 := by
    have h := rnd_close (F := F) (P * cv)
    have : |P * cv| / 2 ^ 53 ≤ P / 2 ^ 53 := div_le_div_of_nonneg_right hPcv (by positivity)
    linarith
  rw [hvv]
  -- assemble
  have e : rnd (F := F) (P * cv) - m * Real.cos (Angle.Tpi b.angle - Angle.Tpi a.angle)
      = (rnd (F := F) (P * cv) - P * cv) + (P - m) * cv + m * (cv - Real.cos (Angle.Tpi b.angle - Angle.Tpi a.angle)) := by ring
  rw [e]
  have t1 := hVerr
  have t2 : |(P - m) * cv| ≤ m / 2 ^ 53 + 1 / 10 ^ 30 := by
    rw [abs_mul]
    calc |P - m| * |cv| ≤ |P - m| * 1 := mul_le_mul_of_nonneg_left hc1 (abs_nonneg _)
      _ ≤ m / 2 ^ 53 + 1 / 10 ^ 30 := by rw [mul_one]; exact hPerr
  have t3 : |m * (cv - Real.cos (Angle.Tpi b.angle - Angle.Tpi a.angle))| ≤ m * (val (e10 : F) + 8 / 10 ^ 15) := by
    rw [abs_mul, abs_of_nonneg hm0]; exact mul_le_mul_of_nonneg_left hcos hm0
  have hPle : P ≤ 2 * m + 1 / 10 ^ 30 := by
    rw [abs_le] at hPerr
    have : m / 2 ^ 53 ≤ m := div_le_self hm0 (by norm_num)
    linarith [hPerr.2]
  have hP53 : P / 2 ^ 53 ≤ 2 * m / 2 ^ 53 + 1 / 10 ^ 30 := by
    have h1 : P / 2 ^ 53 ≤ (2 * m + 1 / 10 ^ 30) / 2 ^ 53 := div_le_div_of_nonneg_right hPle (by positivity)
    have h2 : (1:ℝ) / 10 ^ 30 / 2 ^ 53 ≤ 1 / 10 ^ 30 := div_le_self (by positivity) (by norm_num)
    rw [add_div] at h1; linarith
  have habs := abs_add_three (rnd (F := F) (P * cv) - P * cv) ((P - m) * cv)
    (m * (cv - Real.cos (Angle.Tpi b.angle - Angle.Tpi a.angle)))
  have hnum : (3:ℝ) / 2 ^ 53 + 8 / 10 ^ 15 ≤ 1 / 10 ^ 14 := by norm_num
  have hnum2 : (4:ℝ) / 10 ^ 30 ≤ 1 / 10 ^ 29 := by norm_num
  have h53m : m / 2 ^ 53 = m * (1 / 2 ^ 53) := by ring
  have h53m2 : 2 * m / 2 ^ 53 = m * (2 / 2 ^ 53) := by ring
  rw [h53m2] at hP53; rw [h53m] at t2
  nlinarith [habs, t1, t2, t3, hP53, hm0, mul_le_mul_of_nonneg_left hnum hm0]


end Geonum
end GeonumModel
