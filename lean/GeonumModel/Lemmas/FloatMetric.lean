/-
  GeonumModel.Lemmas.FloatMetric — more B-tier corollaries: distance against the TRUE Euclidean distance (hence symmetry and the triangle inequality up to the
  stated slack), symmetry of the dot value, totals of products and wedges.
-/
import GeonumModel.Lemmas.FloatSumCart
import GeonumModel.Lemmas.FloatReflect
import GeonumModel.Lemmas.FloatTrig
import GeonumModel.Lemmas.Shift

set_option linter.unusedSectionVars false
set_option linter.unusedVariables false

namespace GeonumModel
open FloatLike FloatSpec
variable {F : Type} [FloatSpec F]
namespace Geonum
open Angle

theorem euclid_eq (A B s t : ℝ) :
    euclid A B s t = Real.sqrt ((A * Real.cos s - B * Real.cos t) ^ 2 + (A * Real.sin s - B * Real.sin t) ^ 2) := by
  unfold euclid
  congr 1
  rw [Real.cos_sub]
  have hs := Real.sin_sq_add_cos_sq s; have ht := Real.sin_sq_add_cos_sq t
  nlinarith [hs, ht]

/-- **`distance_to` in rounded arithmetic against the true Euclidean distance** of the two Cartesian points (true π): within
    `(|a|+|b|)·1.6e-5·…` — precisely `(|a|+|b|)·(2⁻²⁴ + 2⁻⁵⁰ + 7.1e-6·√(1e-10·…))`; stated as `(|a|+|b|)·(1.1e-5) + 1e-90`, dominated by the
    `1e-10` snap of the angle difference under the square root -/
theorem distance_true {a b : Geonum F} (ha : a.angle.Inv) (hb : b.angle.Inv) (hma : a.MagDom) (hmb : b.MagDom) :
    |val (a.distanceTo b).mag - euclid (val a.mag) (val b.mag) (Tpi a.angle) (Tpi b.angle)|
      ≤ (val a.mag + val b.mag) * (11 / 10 ^ 6) + 1 / 10 ^ 90 := by
  have hd := geometricSub_inv hb ha
  obtain ⟨hfg, _, _, _⟩ := gradeAngle_spec hd
  have hm := Geonum.distance_float hma hmb hfg
  obtain ⟨hc, _⟩ := cos_sub_float ha hb
  obtain ⟨_, hcabs, _⟩ := cos_spec hfg
  obtain ⟨_, hA0, _⟩ := hma
  obtain ⟨_, hB0, _⟩ := hmb
  have he' := val_e10_small (F := F); have he := val_e10_pos (F := F)
  have hC1 := Real.cos_le_one (Tpi b.angle - Tpi a.angle)
  have he11 := (val_e10_bounds (F := F)).2
  unfold euclid
  generalize val a.mag = A at *
  generalize val b.mag = B at *
  have hsub : (b.angle.sub a.angle) = b.angle.geometricSub a.angle := rfl
  rw [hsub] at hm
  generalize val (FloatLike.cos (b.angle.geometricSub a.angle).gradeAngle) = c at *
  generalize Real.cos (Tpi b.angle - Tpi a.angle) = C at *
  have hX0 : 0 ≤ A * A + B * B - 2 * A * B * c := by
    rw [abs_le] at hcabs
    nlinarith [mul_nonneg hA0 hB0, sq_nonneg (A - B)]
  have hY0 : 0 ≤ A * A + B * B - 2 * A * B * C := by
    nlinarith [mul_nonneg hA0 hB0, sq_nonneg (A - B)]
  · have hs := sqrt_sub_sqrt_le hX0 hY0
    have hdiff : |A * A + B * B - 2 * A * B * c - (A * A + B * B - 2 * A * B * C)| ≤ 2 * A * B * (2 / 10 ^ 10) := by
      have : A * A + B * B - 2 * A * B * c - (A * A + B * B - 2 * A * B * C) = -(2 * A * B * (c - C)) := by ring
      rw [this, abs_neg, abs_mul, abs_of_nonneg (by positivity)]
      apply mul_le_mul_of_nonneg_left _ (by positivity)
      have : (11:ℝ) / 10 ^ 11 + 8 / 10 ^ 15 ≤ 2 / 10 ^ 10 := by norm_num
      linarith
    have hsq : Real.sqrt |A * A + B * B - 2 * A * B * c - (A * A + B * B - 2 * A * B * C)| ≤ (A + B) * (10001 / 10 ^ 9) := by
      apply Real.sqrt_le_iff.mpr
      refine ⟨by positivity, le_trans hdiff ?_⟩
      have h2 : 2 * A * B ≤ (A + B) ^ 2 / 2 := by nlinarith [sq_nonneg (A - B)]
      have h13 : (2:ℝ) / 10 ^ 10 / 2 ≤ (10001 / 10 ^ 9) ^ 2 := by norm_num
      calc 2 * A * B * (2 / 10 ^ 10) ≤ (A + B) ^ 2 / 2 * (2 / 10 ^ 10) := mul_le_mul_of_nonneg_right h2 (by positivity)
        _ = (A + B) ^ 2 * (2 / 10 ^ 10 / 2) := by ring
        _ ≤ (A + B) ^ 2 * (10001 / 10 ^ 9) ^ 2 := mul_le_mul_of_nonneg_left h13 (by positivity)
        _ = ((A + B) * (10001 / 10 ^ 9)) ^ 2 := by ring
    have e : val (a.distanceTo b).mag - Real.sqrt (A * A + B * B - 2 * A * B * C)
        = (val (a.distanceTo b).mag - Real.sqrt (A * A + B * B - 2 * A * B * c))
          + (Real.sqrt (A * A + B * B - 2 * A * B * c) - Real.sqrt (A * A + B * B - 2 * A * B * C)) := by ring
    rw [e]
    have := abs_add_le (val (a.distanceTo b).mag - Real.sqrt (A * A + B * B - 2 * A * B * c))
      (Real.sqrt (A * A + B * B - 2 * A * B * c) - Real.sqrt (A * A + B * B - 2 * A * B * C))
    have hnum : (1:ℝ) / 2 ^ 24 + 1 / 2 ^ 50 + 10001 / 10 ^ 9 ≤ 11 / 10 ^ 6 := by norm_num
    have hAB : 0 ≤ A + B := by linarith
    have := mul_le_mul_of_nonneg_left hnum hAB
    nlinarith


theorem euclid_symm (A B s t : ℝ) : euclid A B s t = euclid B A t s := by
  unfold euclid
  have : Real.cos (s - t) = Real.cos (t - s) := by rw [← Real.cos_neg]; congr 1; ring
  rw [this]; congr 1; ring

/-- the polar point `A·e^{is}` -/
noncomputable def pt (A s : ℝ) : ℂ := ⟨A * Real.cos s, A * Real.sin s⟩

theorem euclid_dist (A B s t : ℝ) : euclid A B s t = dist (pt A s) (pt B t) := by
  rw [euclid_eq, Complex.dist_eq, Complex.norm_def, Complex.normSq_apply]
  unfold pt
  simp only [Complex.sub_re, Complex.sub_im]
  congr 1; ring

theorem euclid_triangle (A B C s t u : ℝ) : euclid A C s u ≤ euclid A B s t + euclid B C t u := by
  rw [euclid_dist, euclid_dist, euclid_dist]; exact dist_triangle _ _ _

/-- **`distance_to` is symmetric in rounded arithmetic** up to twice the accuracy bound -/
theorem distance_symm_float {a b : Geonum F} (ha : a.angle.Inv) (hb : b.angle.Inv) (hma : a.MagDom) (hmb : b.MagDom) :
    |val (a.distanceTo b).mag - val (b.distanceTo a).mag| ≤ 2 * ((val a.mag + val b.mag) * (11 / 10 ^ 6) + 1 / 10 ^ 90) := by
  have h1 := distance_true ha hb hma hmb
  have h2 := distance_true hb ha hmb hma
  rw [euclid_symm (val b.mag) (val a.mag)] at h2
  have e : val (a.distanceTo b).mag - val (b.distanceTo a).mag
      = (val (a.distanceTo b).mag - euclid (val a.mag) (val b.mag) (Tpi a.angle) (Tpi b.angle))
        - (val (b.distanceTo a).mag - euclid (val a.mag) (val b.mag) (Tpi a.angle) (Tpi b.angle)) := by ring
  rw [e]
  have := abs_sub (val (a.distanceTo b).mag - euclid (val a.mag) (val b.mag) (Tpi a.angle) (Tpi b.angle))
    (val (b.distanceTo a).mag - euclid (val a.mag) (val b.mag) (Tpi a.angle) (Tpi b.angle))
  have hcomm : (val b.mag + val a.mag) = (val a.mag + val b.mag) := add_comm _ _
  rw [hcomm] at h2
  linarith

/-- **the triangle inequality for `distance_to` in rounded arithmetic**, up to the three accuracy bounds -/
theorem distance_triangle_float {a b c : Geonum F} (ha : a.angle.Inv) (hb : b.angle.Inv) (hc : c.angle.Inv)
    (hma : a.MagDom) (hmb : b.MagDom) (hmc : c.MagDom) :
    val (a.distanceTo c).mag ≤ val (a.distanceTo b).mag + val (b.distanceTo c).mag
      + ((val a.mag + val c.mag) + (val a.mag + val b.mag) + (val b.mag + val c.mag)) * (11 / 10 ^ 6) + 3 / 10 ^ 90 := by
  have h1 := distance_true ha hc hma hmc
  have h2 := distance_true ha hb hma hmb
  have h3 := distance_true hb hc hmb hmc
  have ht := euclid_triangle (val a.mag) (val b.mag) (val c.mag) (Tpi a.angle) (Tpi b.angle) (Tpi c.angle)
  rw [abs_le] at h1 h2 h3
  nlinarith [h1.1, h1.2, h2.1, h2.2, h3.1, h3.2]

/-- **the dot value is symmetric in rounded arithmetic** up to twice its accuracy bound -/
theorem dot_symm_float {a b : Geonum F} (ha : a.angle.Inv) (hb : b.angle.Inv) (hma : a.MagDom) (hmb : b.MagDom) :
    |val (fmul (fmul a.mag b.mag) (FloatLike.cos (b.angle.geometricSub a.angle).gradeAngle))
      - val (fmul (fmul b.mag a.mag) (FloatLike.cos (a.angle.geometricSub b.angle).gradeAngle))|
      ≤ 2 * (val a.mag * val b.mag * (val (e10 : F) + 1 / 10 ^ 14) + 1 / 10 ^ 29) := by
  have h1 := Geonum.dot_value_float ha hb hma hmb
  have h2 := Geonum.dot_value_float hb ha hmb hma
  have hcos : Real.cos (Tpi a.angle - Tpi b.angle) = Real.cos (Tpi b.angle - Tpi a.angle) := by
    rw [← Real.cos_neg]; congr 1; ring
  rw [hcos, mul_comm (val b.mag) (val a.mag)] at h2
  have e : val (fmul (fmul a.mag b.mag) (FloatLike.cos (b.angle.geometricSub a.angle).gradeAngle))
      - val (fmul (fmul b.mag a.mag) (FloatLike.cos (a.angle.geometricSub b.angle).gradeAngle))
      = (val (fmul (fmul a.mag b.mag) (FloatLike.cos (b.angle.geometricSub a.angle).gradeAngle))
          - val a.mag * val b.mag * Real.cos (Tpi b.angle - Tpi a.angle))
        - (val (fmul (fmul b.mag a.mag) (FloatLike.cos (a.angle.geometricSub b.angle).gradeAngle))
          - val a.mag * val b.mag * Real.cos (Tpi b.angle - Tpi a.angle)) := by ring
  rw [e]
  have := abs_sub (val (fmul (fmul a.mag b.mag) (FloatLike.cos (b.angle.geometricSub a.angle).gradeAngle))
          - val a.mag * val b.mag * Real.cos (Tpi b.angle - Tpi a.angle))
    (val (fmul (fmul b.mag a.mag) (FloatLike.cos (a.angle.geometricSub b.angle).gradeAngle))
          - val a.mag * val b.mag * Real.cos (Tpi b.angle - Tpi a.angle))
  linarith

/-- the angle of a product in rounded arithmetic: totals add, up to one snap and one rounding -/
theorem mul_total_float {a b : Geonum F} (ha : a.angle.Inv) (hb : b.angle.Inv) :
    (a.mul b).mag = fmul a.mag b.mag ∧
    ∃ δ : ℝ, |δ| < val (e10 : F) + 1 / 10 ^ 15 ∧ Tq (a.mul b).angle = Tq a.angle + Tq b.angle + δ :=
  ⟨rfl, add_total_q ha hb⟩


/-- adding whole quarter turns shifts the float total exactly -/
theorem Tq_add_whole {x z : Angle F} (hx : x.Inv) (hzf : Fin z.rem) (hz0 : val z.rem = 0) :
    Tq (x.geometricAdd z) = Tq x + (z.blade : ℝ) * val (qp : F) := by
  obtain ⟨hbl, _, hv⟩ := add_whole hx hzf hz0
  unfold Tq; rw [hbl, hv]; push_cast; ring

/-- **the angle of the wedge in rounded arithmetic**: `T a + T b + π_f/2`, plus a half turn exactly when the computed sine tests
    negative, up to one snap and one rounding (the two whole-blade additions are exact) -/
theorem wedge_total_float {a b : Geonum F} (ha : a.angle.Inv) (hb : b.angle.Inv) :
    ∃ δ : ℝ, |δ| < val (e10 : F) + 1 / 10 ^ 15 ∧
      Tq (a.wedge b).angle = Tq a.angle + Tq b.angle + δ + val (qp : F)
        + (if flt (FloatLike.sin (b.angle.sub a.angle).gradeAngle) (zero : F) then 2 * val (qp : F) else 0) := by
  obtain ⟨δ, hδ, hab⟩ := add_total_q ha hb
  have habinv := geometricAdd_inv ha hb
  have h1 : Tq ((a.angle.geometricAdd b.angle).geometricAdd (Angle.new (one : F) two))
      = Tq a.angle + Tq b.angle + δ + val (qp : F) := by
    rw [new_one_two, Tq_add_whole habinv fin_zero val_zero, hab]; push_cast; ring
  have hq1inv : ((a.angle.geometricAdd b.angle).geometricAdd (Angle.new (one : F) two)).Inv := by
    rw [new_one_two]; exact add_whole_inv habinv fin_zero val_zero
  refine ⟨δ, hδ, ?_⟩
  unfold Geonum.wedge
  simp only [Angle.add, addVV]
  split
  · obtain ⟨hb2, hf2, _, hv2⟩ := new_one_one (F := F)
    simp only at hb2 hv2; rw [val_zero] at hv2
    rw [Tq_add_whole hq1inv hf2 hv2, h1, hb2]; push_cast; ring
  · rw [h1]; ring



/-- a whole number of turns on an operand does not move its true Cartesian point -/
theorem cart_shift4 (g : Geonum F) (n : ℕ) :
    Real.cos (Tpi (g.shift4 n).angle) = Real.cos (Tpi g.angle) ∧ Real.sin (Tpi (g.shift4 n).angle) = Real.sin (Tpi g.angle) ∧
    (g.shift4 n).mag = g.mag ∧ ((g.shift4 n).angle.Inv ↔ g.angle.Inv) := by
  have hT : Tpi (g.shift4 n).angle = Tpi g.angle + (n : ℝ) * (2 * Real.pi) := by
    unfold Tpi Geonum.shift4 Angle.shift4; simp only; push_cast; ring
  refine ⟨by rw [hT]; exact Real.cos_add_nat_mul_two_pi _ _, by rw [hT]; exact Real.sin_add_nat_mul_two_pi _ _, rfl, Iff.rfl⟩

/-- **dimension freedom of sums in rounded arithmetic** (general branch on both sides): adding `4n` quarter turns to the first summand
    moves the Cartesian components of the sum by at most the two accuracy bounds — the result points agree although the result
    angles carry different blade histories -/
theorem sum_shift_cartesian_float {a b : Geonum F} (n : ℕ) (ha : a.angle.Inv) (hb : b.angle.Inv) (hma : a.MagDom) (hmb : b.MagDom)
    (hcb : a.angle.blade + 4 * n + b.angle.blade ≤ 2 ^ 39)
    (h1 : sameAngle a b = false) (h2 : oppositeAngle a b = false)
    (h1' : sameAngle (a.shift4 n) b = false) (h2' : oppositeAngle (a.shift4 n) b = false) :
    |val ((a.shift4 n).add b).mag * Real.cos (Tpi ((a.shift4 n).add b).angle) - val (a.add b).mag * Real.cos (Tpi (a.add b).angle)|
      ≤ 2 * ((val a.mag + val b.mag) * (2 / 10 ^ 7 + 11 / 10 * (val (e10 : F)
          + (40 * ((a.angle.blade + 4 * n + b.angle.blade : ℕ) : ℝ) + 170) * (1 / 2 ^ 53))) + 1 / 10 ^ 28) ∧
    |val ((a.shift4 n).add b).mag * Real.sin (Tpi ((a.shift4 n).add b).angle) - val (a.add b).mag * Real.sin (Tpi (a.add b).angle)|
      ≤ 2 * ((val a.mag + val b.mag) * (2 / 10 ^ 7 + 11 / 10 * (val (e10 : F)
          + (40 * ((a.angle.blade + 4 * n + b.angle.blade : ℕ) : ℝ) + 170) * (1 / 2 ^ 53))) + 1 / 10 ^ 28) := by
  obtain ⟨hc, hs, hm, _⟩ := cart_shift4 a n
  have hcb0 : a.angle.blade + b.angle.blade ≤ 2 ^ 39 := by omega
  have hbl : (a.shift4 n).angle.blade + b.angle.blade = a.angle.blade + 4 * n + b.angle.blade := rfl
  obtain ⟨p1, p2⟩ := sum_cartesian_float ha hb hma hmb hcb0 h1 h2
  obtain ⟨q1, q2⟩ := sum_cartesian_float (a := a.shift4 n) (show (a.shift4 n).angle.Inv from ha) hb
    (show (a.shift4 n).MagDom from hma) hmb (by rw [hbl]; exact hcb) h1' h2'
  rw [hc, hm, hbl] at q1
  rw [hs, hm, hbl] at q2
  have he := val_e10_pos (F := F)
  -- the smaller blade count gives the smaller bound
  have hmono : (val a.mag + val b.mag) * (2 / 10 ^ 7 + 11 / 10 * (val (e10 : F)
        + (40 * ((a.angle.blade + b.angle.blade : ℕ) : ℝ) + 170) * (1 / 2 ^ 53))) + 1 / 10 ^ 28
      ≤ (val a.mag + val b.mag) * (2 / 10 ^ 7 + 11 / 10 * (val (e10 : F)
        + (40 * ((a.angle.blade + 4 * n + b.angle.blade : ℕ) : ℝ) + 170) * (1 / 2 ^ 53))) + 1 / 10 ^ 28 := by
    have hle : ((a.angle.blade + b.angle.blade : ℕ) : ℝ) ≤ ((a.angle.blade + 4 * n + b.angle.blade : ℕ) : ℝ) := by
      exact_mod_cast (by omega : a.angle.blade + b.angle.blade ≤ a.angle.blade + 4 * n + b.angle.blade)
    have hAB : 0 ≤ val a.mag + val b.mag := add_nonneg hma.2.1 hmb.2.1
    have : (40 * ((a.angle.blade + b.angle.blade : ℕ) : ℝ) + 170) * (1 / 2 ^ 53)
        ≤ (40 * ((a.angle.blade + 4 * n + b.angle.blade : ℕ) : ℝ) + 170) * (1 / 2 ^ 53) :=
      mul_le_mul_of_nonneg_right (by linarith) (by positivity)
    have := mul_le_mul_of_nonneg_left (show 2 / 10 ^ 7 + 11 / 10 * (val (e10 : F)
        + (40 * ((a.angle.blade + b.angle.blade : ℕ) : ℝ) + 170) * (1 / 2 ^ 53)) ≤ 2 / 10 ^ 7 + 11 / 10 * (val (e10 : F)
        + (40 * ((a.angle.blade + 4 * n + b.angle.blade : ℕ) : ℝ) + 170) * (1 / 2 ^ 53)) by linarith) hAB
    linarith
  rw [abs_le] at p1 p2 q1 q2 ⊢
  rw [abs_le]
  constructor <;> constructor <;> linarith [p1.1, p1.2, p2.1, p2.2, q1.1, q1.2, q2.1, q2.2]


/-- **difference of two geometric numbers in rounded arithmetic, general branch**: the Cartesian components of `a − p` are the
    component-wise differences, within the `sum_cartesian_float` bound at blade count `ba + bp + 2` — hence `p + (a − p)` reproduces `a`
    as a point (used for projection + rejection) -/
theorem sub_cartesian_float {a p : Geonum F} (ha : a.angle.Inv) (hp : p.angle.Inv) (hma : a.MagDom) (hmp : p.MagDom)
    (hcb : a.angle.blade + p.angle.blade + 2 ≤ 2 ^ 39)
    (h1 : sameAngle a p.negate = false) (h2 : oppositeAngle a p.negate = false) :
    |val (a.sub p).mag * Real.cos (Tpi (a.sub p).angle) + val p.mag * Real.cos (Tpi p.angle) - val a.mag * Real.cos (Tpi a.angle)|
      ≤ (val a.mag + val p.mag) * (2 / 10 ^ 7 + 11 / 10 * (val (e10 : F)
          + (40 * ((a.angle.blade + p.angle.blade + 2 : ℕ) : ℝ) + 170) * (1 / 2 ^ 53))) + 1 / 10 ^ 28 ∧
    |val (a.sub p).mag * Real.sin (Tpi (a.sub p).angle) + val p.mag * Real.sin (Tpi p.angle) - val a.mag * Real.sin (Tpi a.angle)|
      ≤ (val a.mag + val p.mag) * (2 / 10 ^ 7 + 11 / 10 * (val (e10 : F)
          + (40 * ((a.angle.blade + p.angle.blade + 2 : ℕ) : ℝ) + 170) * (1 / 2 ^ 53))) + 1 / 10 ^ 28 := by
  obtain ⟨hT, hninv⟩ := Tpi_negate hp
  obtain ⟨hnb, _, _⟩ := negate_spec hp
  have hbl : a.angle.blade + p.negate.angle.blade = a.angle.blade + p.angle.blade + 2 := by
    show a.angle.blade + p.angle.negate.blade = _; rw [hnb]; ring
  obtain ⟨q1, q2⟩ := sum_cartesian_float (a := a) (b := p.negate) ha (show p.negate.angle.Inv from hninv) hma
    (show p.negate.MagDom from hmp) (by rw [hbl]; exact hcb) h1 h2
  have hT' : Tpi p.negate.angle = Tpi p.angle + Real.pi := hT
  have hm : val p.negate.mag = val p.mag := rfl
  rw [hT', Real.cos_add_pi, hm, hbl] at q1
  rw [hT', Real.sin_add_pi, hm, hbl] at q2
  have hsub : a.sub p = a.add p.negate := rfl
  rw [hsub]
  constructor
  · have e : val (a.add p.negate).mag * Real.cos (Tpi (a.add p.negate).angle) + val p.mag * Real.cos (Tpi p.angle) - val a.mag * Real.cos (Tpi a.angle)
        = val (a.add p.negate).mag * Real.cos (Tpi (a.add p.negate).angle) - (val a.mag * Real.cos (Tpi a.angle) + val p.mag * -Real.cos (Tpi p.angle)) := by ring
    rw [e]; exact q1
  · have e : val (a.add p.negate).mag * Real.sin (Tpi (a.add p.negate).angle) + val p.mag * Real.sin (Tpi p.angle) - val a.mag * Real.sin (Tpi a.angle)
        = val (a.add p.negate).mag * Real.sin (Tpi (a.add p.negate).angle) - (val a.mag * Real.sin (Tpi a.angle) + val p.mag * -Real.sin (Tpi p.angle)) := by ring
    rw [e]; exact q2


/-- **`scale_rotate` in rounded arithmetic**: the magnitude is the one rounded product `|g|·|f|`, and the float total of the angle is
    `T g + T r`, plus exactly a half turn `2·(π_f/2)` when the factor tests negative, up to one snap and one rounding -/
theorem scaleRotate_float {g : Geonum F} {f : F} {r : Angle F} (hg : g.angle.Inv) (hr : r.Inv) (hm : Fin g.mag) (hf : Fin f) :
    (flt f zero = true →
      (g.scaleRotate f r).mag = fmul g.mag (fabs f) ∧
      ∃ δ : ℝ, |δ| < val (e10 : F) + 1 / 10 ^ 15 ∧
        Tq (g.scaleRotate f r).angle = Tq g.angle + 2 * val (qp : F) + Tq r + δ) ∧
    (flt f zero = false →
      (g.scaleRotate f r).mag = fmul g.mag f ∧
      ∃ δ : ℝ, |δ| < val (e10 : F) + 1 / 10 ^ 15 ∧ Tq (g.scaleRotate f r).angle = Tq g.angle + Tq r + δ) := by
  constructor
  · intro h
    have hdef : g.scaleRotate f r = ⟨fmul g.mag (fabs f), g.angle.negate.geometricAdd r⟩ := by
      simp [Geonum.scaleRotate, h, Geonum.newWithAngle, Angle.add, addVV]
    obtain ⟨hb, hfr, hv⟩ := negate_spec hg
    have hninv : g.angle.negate.Inv := inv_of_spec hg ⟨hfr, hv⟩
    obtain ⟨δ, hδ, hT⟩ := add_total_q hninv hr
    have hTn : Tq g.angle.negate = Tq g.angle + 2 * val (qp : F) := by
      unfold Tq; rw [hb, hv]; push_cast; ring
    rw [hdef]
    exact ⟨rfl, δ, hδ, by show Tq (g.angle.negate.geometricAdd r) = _; rw [hT, hTn]⟩
  · intro h
    have hdef : g.scaleRotate f r = ⟨fmul g.mag f, g.angle.geometricAdd r⟩ := by
      simp [Geonum.scaleRotate, h, Geonum.newWithAngle, Angle.add, addVV]
    obtain ⟨δ, hδ, hT⟩ := add_total_q hg hr
    rw [hdef]
    exact ⟨rfl, δ, hδ, hT⟩

end Geonum
end GeonumModel
