/-
  GeonumModel.Lemmas.FloatReflect — S/B-tier for reflection: the direction law `t ↦ 2α − t` in ROUNDED arithmetic, in units of
  the float quarter turn (`Tq x = blade·(π_f/2) + rem`), modulo whole turns `4·(π_f/2)`.
-/
import GeonumModel.Lemmas.FloatDivF
import GeonumModel.Lemmas.AngleStep

set_option linter.unusedSectionVars false
set_option linter.unusedVariables false

namespace GeonumModel
open FloatLike FloatSpec
variable {F : Type} [FloatSpec F]
namespace Angle

/-- the total of a sum is the sum of the totals up to the snap and one rounding -/
theorem add_total_q {a b : Angle F} (ha : a.Inv) (hb : b.Inv) :
    ∃ δ : ℝ, |δ| < val (e10 : F) + 1 / 10 ^ 15 ∧ Tq (a.geometricAdd b) = Tq a + Tq b + δ := by
  have h := (geometricAdd_spec ha hb).2.2
  refine ⟨Tq (a.geometricAdd b) - (Tq a + Tq b), ?_, by ring⟩
  have e : Tq (a.geometricAdd b) - (Tq a + Tq b) =
      (val (a.geometricAdd b).rem + (((a.geometricAdd b).blade : ℝ) - ((a.blade + b.blade : ℕ) : ℝ)) * val (qp : F))
        - (val a.rem + val b.rem) := by
    unfold Tq; push_cast; ring
  rw [e]; exact h

/-- the total of a difference is the difference of the totals modulo whole turns, up to the snap and two roundings -/
theorem sub_total_q {a b : Angle F} (ha : a.Inv) (hb : b.Inv) :
    ∃ (δ : ℝ) (m : ℤ), |δ| < val (e10 : F) + 1 / 10 ^ 15 ∧
      Tq (a.geometricSub b) = Tq a - Tq b + δ + (m : ℝ) * (4 * val (qp : F)) := by
  obtain ⟨_, s, c, hs, hc, hbl, htot, _, _⟩ := geometricSub_spec ha hb
  set D : ℤ := (a.blade : ℤ) - (b.blade : ℤ) + s with hD
  obtain ⟨m, hm⟩ : ∃ m : ℤ, (wrap4 D : ℤ) = D + 4 * m := by
    have := wrap4_mod D; exact ⟨((wrap4 D : ℤ) - D) / 4, by omega⟩
  have hblr : ((a.geometricSub b).blade : ℝ) = (a.blade : ℝ) - (b.blade : ℝ) + (s : ℝ) + 4 * (m : ℝ) + (c : ℝ) := by
    have : ((a.geometricSub b).blade : ℤ) = (a.blade : ℤ) - (b.blade : ℤ) + s + 4 * m + c := by
      rw [hbl]; push_cast; rw [hm]
    exact_mod_cast this
  refine ⟨val (a.geometricSub b).rem + ((c : ℝ) + (s : ℝ)) * val (qp : F) - (val a.rem - val b.rem), m, htot, ?_⟩
  unfold Tq; rw [hblr]; ring

theorem Tq_baseAngle (a : Angle F) :
    Tq a.baseAngle = Tq a - ((a.blade / 4 : ℕ) : ℝ) * (4 * val (qp : F)) := by
  unfold Tq baseAngle grade
  have h : a.blade = 4 * (a.blade / 4) + a.blade % 4 := (Nat.div_add_mod a.blade 4).symm
  have hr : (a.blade : ℝ) = 4 * ((a.blade / 4 : ℕ) : ℝ) + ((a.blade % 4 : ℕ) : ℝ) := by exact_mod_cast h
  simp only; rw [hr]; push_cast; ring

end Angle

namespace Geonum
open Angle

/-- **reflection in rounded arithmetic sends direction `t` to `2α − t` modulo whole turns**, to within three snap
    tolerances (`3·(1e-10 + 1e-15)`), whatever the blade histories of the number and the axis -/
theorem reflect_direction_float {g axis : Geonum F} (hg : g.angle.Inv) (hax : axis.angle.Inv) :
    (g.reflect axis).mag = g.mag ∧
    ∃ (δ : ℝ) (m : ℤ), |δ| < 3 * (val (e10 : F) + 1 / 10 ^ 15) ∧
      Tq (g.reflect axis).angle = 2 * Tq axis.angle - Tq g.angle + δ + (m : ℝ) * (4 * val (qp : F)) := by
  refine ⟨rfl, ?_⟩
  obtain ⟨hb8, hf8, _, hv8⟩ := new_four_one (F := F)
  simp only at hb8 hv8; rw [val_zero] at hv8
  have h4inv : (Angle.new (four : F) one).Inv := Angle.Equiv.inv (Angle.Equiv.symm new_four_one) (inv_zero 8)
  have hT4 : Tq (Angle.new (four : F) one) = (2 : ℝ) * (4 * val (qp : F)) := by
    unfold Tq; rw [hb8, hv8]; push_cast; ring
  obtain ⟨δ2, m2, hδ2, hc⟩ := sub_total_q h4inv (baseAngle_inv hg)
  have hcinv := geometricSub_inv h4inv (baseAngle_inv hg)
  obtain ⟨δ1, hδ1, haa⟩ := add_total_q hax hax
  have haainv := geometricAdd_inv hax hax
  obtain ⟨δ3, hδ3, hres⟩ := add_total_q haainv hcinv
  refine ⟨δ1 + δ2 + δ3, m2 + 2 + (g.angle.blade / 4 : ℕ), ?_, ?_⟩
  · have := abs_add_three δ1 δ2 δ3
    linarith
  · show Tq ((axis.angle.geometricAdd axis.angle).geometricAdd ((Angle.new four one).geometricSub g.angle.baseAngle)) = _
    rw [hres, haa, hc, hT4, Tq_baseAngle]
    simp only [Int.cast_add, Int.cast_natCast, Int.cast_ofNat]
    ring

/-- a number lying on the axis keeps its direction (rounded arithmetic) -/
theorem reflect_on_axis_float {g axis : Geonum F} (hg : g.angle.Inv) (hax : axis.angle.Inv)
    (hon : Tq g.angle = Tq axis.angle) :
    ∃ (δ : ℝ) (m : ℤ), |δ| < 3 * (val (e10 : F) + 1 / 10 ^ 15) ∧
      Tq (g.reflect axis).angle = Tq g.angle + δ + (m : ℝ) * (4 * val (qp : F)) := by
  obtain ⟨_, δ, m, hδ, h⟩ := reflect_direction_float hg hax
  exact ⟨δ, m, hδ, by rw [h, hon]; ring⟩

/-- reflecting twice across the same axis restores the direction (rounded arithmetic), to within six snap tolerances -/
theorem reflect_twice_float {g axis : Geonum F} (hg : g.angle.Inv) (hax : axis.angle.Inv) :
    ((g.reflect axis).reflect axis).mag = g.mag ∧
    ∃ (δ : ℝ) (m : ℤ), |δ| < 6 * (val (e10 : F) + 1 / 10 ^ 15) ∧
      Tq ((g.reflect axis).reflect axis).angle = Tq g.angle + δ + (m : ℝ) * (4 * val (qp : F)) := by
  refine ⟨rfl, ?_⟩
  obtain ⟨_, δ1, m1, hδ1, h1⟩ := reflect_direction_float hg hax
  -- the reflected number's angle is canonical
  obtain ⟨hb8, hf8, _, hv8⟩ := new_four_one (F := F)
  have h4inv : (Angle.new (four : F) one).Inv := Angle.Equiv.inv (Angle.Equiv.symm new_four_one) (inv_zero 8)
  have hrinv : (g.reflect axis).angle.Inv :=
    geometricAdd_inv (geometricAdd_inv hax hax) (geometricSub_inv h4inv (baseAngle_inv hg))
  obtain ⟨_, δ2, m2, hδ2, h2⟩ := reflect_direction_float hrinv hax
  refine ⟨δ2 - δ1, m2 - m1, ?_, ?_⟩
  · have := abs_sub δ2 δ1
    linarith
  · rw [h2, h1]; push_cast; ring

end Geonum
end GeonumModel
