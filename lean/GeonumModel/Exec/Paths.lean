/-
  GeonumModel.Exec.Paths — which branch of the modelled source a given input takes (model-only `path.*` ops).
  Used only to measure the input distribution of a run (evidence), never by a theorem.
-/
import GeonumModel.Model.Geonum

namespace GeonumModel.Paths
open GeonumModel FloatLike
variable {F : Type} [FloatLike F]

/-- 0 snap · 1 carry · 2 carry then snap · 3 pass -/
def normalize (r : F) : Nat :=
  if flt (fabs (fsub r qp)) e10 then 0
  else if fge r qp then (if flt (fabs (fsub (fmod r qp) qp)) e10 then 2 else 1)
  else 3

/-- tens digit: 0 fast path ≥0 · 1 fast path <0 · 2 general ≥0 · 3 general <0 (clamped to 0: 4); units: normalize outcome (general only) -/
def angleNew (p d : F) : Nat :=
  if feq d two && feq (FloatLike.fract p) zero then (if flt p zero then 10 else 0)
  else
    let total := fdiv (fmul p pi) d
    let nt := Angle.newTotal p d
    let cls := if flt total zero then (if feq nt zero then 40 else 30) else 20
    cls + normalize (fmod nt qp)

/-- 0 exact zero · 1 within 1e-15 of a quarter turn · 2+normalize outcome -/
def angleAdd (a b : Angle F) : Nat :=
  let t := fadd a.rem b.rem
  if feq t zero then 0 else if flt (fabs (fsub t qp)) e15 then 1 else 2 + normalize t

/-- tens digit: 0 no wrap · 1 blade wrap; units: 0 equal-remainder shortcut · 1 borrow+normalize(…) · 5 plain -/
def angleSub (a b : Angle F) : Nat :=
  let d : Int := (a.blade : Int) - (b.blade : Int)
  let rd := fsub a.rem b.rem
  if flt (fabs rd) e15 then (if d < 0 then 10 else 0)
  else if flt rd zero then (if d - 1 < 0 then 10 else 0) + 1 + normalize (fadd rd qp)
  else (if d < 0 then 10 else 0) + 5

/-- 0 blades differ · 1 equal within tolerance · 2 exact comparison true · 3 exact comparison false -/
def angleEq (a b : Angle F) : Nat :=
  if a.blade != b.blade then 0
  else if flt (fabs (fsub a.rem b.rem)) e15 then 1
  else if feq a.rem b.rem then 2 else 3

/-- 0 same angle · 1 opposite, cancel · 2 opposite, first dominates · 3 opposite, second dominates · 4 general, radicand ≥ 0 ·
    5 general, radicand clamped -/
def geonumAdd (a b : Geonum F) : Nat :=
  if a.angle.beq b.angle then 0
  else
    let piRot : Angle F := Angle.new one one
    if (a.angle.add piRot).beq b.angle || (b.angle.add piRot).beq a.angle then
      let diff := fsub a.mag b.mag
      if flt (fabs diff) e10 then 1 else if fgt diff zero then 2 else 3
    else
      let ad := fsub b.angle.gradeAngle a.angle.gradeAngle
      let rad := fadd (fadd (fmul a.mag a.mag) (fmul b.mag b.mag)) (fmul (fmul (fmul two a.mag) b.mag) (FloatLike.cos ad))
      if flt rad zero then 5 else 4

/-- 0 tiny axis · 1 non-negative factor · 2 negative factor -/
def project (a b : Geonum F) : Nat :=
  if flt (fabs b.mag) e10 then 0 else if fge (a.angle.project b.angle) zero then 1 else 2

/-- 0 value ≥ 0 · 1 value < 0 -/
def dot (a b : Geonum F) : Nat :=
  if flt (fmul (fmul a.mag b.mag) (FloatLike.cos (b.angle.sub a.angle).gradeAngle)) zero then 1 else 0
def wedge (a b : Geonum F) : Nat :=
  if flt (FloatLike.sin (b.angle.sub a.angle).gradeAngle) zero then 1 else 0

/-- 0 radicand ≥ 0 · 1 radicand clamped -/
def distance (a b : Geonum F) : Nat :=
  let d2 := fsub (fadd (fmul a.mag a.mag) (fmul b.mag b.mag))
                 (fmul (fmul (fmul two a.mag) b.mag) (FloatLike.cos (b.angle.sub a.angle).gradeAngle))
  if flt d2 zero then 1 else 0

end GeonumModel.Paths
