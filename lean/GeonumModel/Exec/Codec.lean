/-
  GeonumModel.Exec.Codec — text encoding of the correspondence protocol (model side).
  f64 = 16 hex digits of the bit pattern (every NaN printed as `nan`); Angle = `blade,rem`;
  Geonum = `mag,blade,rem`; list = `n:g1;g2;…`.
-/
import GeonumModel.Exec.Native
import GeonumModel.Model.Collection
import GeonumModel.Model.Traits

namespace GeonumModel.Exec
open GeonumModel

def hexVal (c : Char) : Option Nat :=
  if '0' ≤ c ∧ c ≤ '9' then some (c.toNat - '0'.toNat)
  else if 'a' ≤ c ∧ c ≤ 'f' then some (c.toNat - 'a'.toNat + 10)
  else none

def pF (s : String) : Option Float :=
  if s.length != 16 then none
  else (s.toList.foldlM (fun acc c => (hexVal c).map (acc * 16 + ·)) 0).map
    fun n => Float.ofBits (UInt64.ofNat n)

def pN (s : String) : Option Nat := s.toNat?
def pI (s : String) : Option Int := s.toInt?

def pA (s : String) : Option (Angle Float) :=
  match s.splitOn "," with
  | [b, r] => do let b ← pN b; let r ← pF r; pure ⟨r, b⟩
  | _ => none

def pG (s : String) : Option (Geonum Float) :=
  match s.splitOn "," with
  | [m, b, r] => do let m ← pF m; let b ← pN b; let r ← pF r; pure ⟨m, ⟨r, b⟩⟩
  | _ => none

def pL (s : String) : Option (List (Geonum Float)) :=
  match s.splitOn ":" with
  | [n, body] => do
    let n ← pN n
    let items := if body.isEmpty then [] else body.splitOn ";"
    if items.length != n then none else items.mapM pG
  | _ => none

def pT (s : String) : Option ML.Activation :=
  match s with
  | "relu" => some .relu | "sigmoid" => some .sigmoid | "tanh" => some .tanh | "identity" => some .identity
  | _ => none

def hexDigit (n : Nat) : Char := if n < 10 then Char.ofNat (48 + n) else Char.ofNat (87 + n)

def fF (x : Float) : String :=
  if x.isNaN then "nan"
  else
    let b := x.toBits.toNat
    String.ofList ((List.range 16).map fun i => hexDigit ((b >>> (4 * (15 - i))) % 16))

def fA (a : Angle Float) : String := s!"{a.blade},{fF a.rem}"
def fG (g : Geonum Float) : String := s!"{fF g.mag},{g.angle.blade},{fF g.angle.rem}"
def fL (l : List (Geonum Float)) : String := s!"{l.length}:{";".intercalate (l.map fG)}"
def fO : Ordering → String | .lt => "lt" | .eq => "eq" | .gt => "gt"

def outF (x : Float) : String := "F " ++ fF x
def outN (n : Nat) : String := s!"N {n}"
def outB (b : Bool) : String := if b then "B 1" else "B 0"
/-- `usize` overflow is modelled at the output boundary only: blade arithmetic in the source is monotone
    (`+` of non-negative counts), the dev profile panics on overflow, and the model computes in `Nat`; so a
    model blade ≥ 2^64 prints as `panic`.  Outside every property's domain (blades ≤ 2^40); exercised by the
    malformed stream only. -/
def blOK (n : Nat) : Bool := n < 2^64
def outA (a : Angle Float) : String := if blOK a.blade then "A " ++ fA a else "panic"
def outG (g : Geonum Float) : String := if blOK g.angle.blade then "G " ++ fG g else "panic"
def outL (l : List (Geonum Float)) : String :=
  if l.all (fun g => blOK g.angle.blade) then "L " ++ fL l else "panic"
def outO : Option Ordering → String | none => "panic" | some o => "O " ++ fO o
def outOO : Option (Option Ordering) → String
  | none => "panic" | some none => "none" | some (some o) => "Some O " ++ fO o
def outOG : Option (Geonum Float) → String | none => "panic" | some g => outG g
def outOL : Option (List (Geonum Float)) → String | none => "panic" | some l => outL l
def outOOG : Option (Option (Geonum Float)) → String
  | none => "panic" | some none => "none"
  | some (some g) => if blOK g.angle.blade then "Some " ++ outG g else "panic"

def sortGeonums (l : List (Geonum Float)) : Option (List (Geonum Float)) := Geonum.sort l

end GeonumModel.Exec
