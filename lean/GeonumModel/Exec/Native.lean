/-
  GeonumModel.Exec.Native — interpretation X: the model on native binary64 (`Float` = C `double`).
  Used only by the correspondence driver; no theorem depends on it.
-/
import GeonumModel.Arith

namespace GeonumModel.Native

/-- decode a finite `Float` as `(negative, m, e)` with `|x| = m · 2^e` -/
def decode (x : Float) : Bool × Nat × Int :=
  let b := x.toBits.toNat
  let neg := b >= 2^63
  let ex : Nat := (b / 2^52) % 2048
  let fr : Nat := b % 2^52
  if ex == 0 then (neg, fr, -1074) else (neg, fr + 2^52, (ex : Int) - 1075)

def nan : Float := Float.ofBits 0x7ff8000000000000

/-- C `fmod` / Rust `%`, computed exactly on the bit patterns (an IEEE remainder is always representable) -/
def fmod (a b : Float) : Float :=
  if a.isNaN || b.isNaN || a.isInf || b == 0 then nan
  else if b.isInf then a
  else
    let (sa, ma, ea) := decode a
    let (_, mb, eb) := decode b
    let e := min ea eb
    let A := ma <<< (ea - e).toNat
    let B := mb <<< (eb - e).toNat
    let R := A % B
    let r := (Float.ofNat R).scaleB e
    if sa then -r else r

/-- Rust `f64::max` as compiled for this target in the dev profile -/
def fmax (a b : Float) : Float := if a < b then b else if a.isNaN then b else a

instance : FloatLike Float where
  fadd := (· + ·)
  fsub := (· - ·)
  fmul := (· * ·)
  fdiv := (· / ·)
  fneg := fun x => -x
  fabs := Float.abs
  flt := fun a b => decide (a < b)
  fle := fun a b => decide (a ≤ b)
  feq := fun a b => a == b
  fmod := fmod
  floor := Float.floor
  ceil := Float.ceil
  round := Float.round
  fract := fun x => x - (if x < 0 then x.ceil else x.floor)   -- `self - self.trunc()`
  isNormal := fun x => let e := (x.toBits >>> 52) &&& 0x7ff; e != 0 && e != 0x7ff
  isFinite := fun x => let e := (x.toBits >>> 52) &&& 0x7ff; e != 0x7ff
  sqrt := Float.sqrt
  fmax := fmax
  toUsize := fun x => x.toUInt64.toNat
  ofNat := fun n => (UInt64.ofNat n).toFloat
  ofInt := fun i => if i < 0 then -((UInt64.ofNat (-i).toNat).toFloat) else (UInt64.ofNat i.toNat).toFloat
  ofSci := fun m s e => OfScientific.ofScientific m s e
  pi := Float.ofBits 0x400921FB54442D18
  cos := Float.cos
  sin := Float.sin
  atan2 := Float.atan2
  acos := Float.acos
  asin := Float.asin
  exp := Float.exp
  tanh := Float.tanh
  ln := Float.log
  powf := Float.pow

end GeonumModel.Native
