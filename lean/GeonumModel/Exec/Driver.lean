/-
  GeonumModel.Exec.Driver — reads one op per line on stdin, writes the model's result per line.
-/
import GeonumModel.Exec.Dispatch
import Std.Data.HashMap

namespace GeonumModel.Exec

def buildMap : Std.HashMap String (List String → Option String) :=
  table.foldl (fun m (k, f) => m.insert k f) {}

def runLine (m : Std.HashMap String (List String → Option String)) (line : String) : String :=
  match (line.trimAscii.toString.splitOn " ").filter (· ≠ "") with
  | [] => "bad-op"
  | name :: args =>
    match m[name]? with
    | none => "bad-op"
    | some f => (f args).getD "bad-op"

partial def loop (m : Std.HashMap String (List String → Option String)) (h : IO.FS.Stream) (out : IO.FS.Stream) : IO Unit := do
  let line ← h.getLine
  if line.isEmpty then return ()
  out.putStrLn (runLine m line)
  loop m h out

end GeonumModel.Exec

def main : IO Unit := do
  let stdin ← IO.getStdin
  let stdout ← IO.getStdout
  GeonumModel.Exec.loop GeonumModel.Exec.buildMap stdin stdout
