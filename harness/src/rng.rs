//! one PRNG state; every random choice of a run derives from it
pub struct Rng(pub u64);
impl Rng {
    pub fn new(seed: u64) -> Self {
        let mut r = Rng(seed.wrapping_mul(0x9E3779B97F4A7C15) ^ 0xD1B54A32D192ED03);
        for _ in 0..4 { r.next(); }
        r
    }
    pub fn next(&mut self) -> u64 {
        // xorshift64*
        let mut x = self.0;
        if x == 0 { x = 0x2545F4914F6CDD1D; }
        x ^= x >> 12; x ^= x << 25; x ^= x >> 27;
        self.0 = x;
        x.wrapping_mul(0x2545F4914F6CDD1D)
    }
    pub fn below(&mut self, n: u64) -> u64 { if n == 0 { 0 } else { self.next() % n } }
    pub fn range(&mut self, lo: i64, hi: i64) -> i64 { lo + self.below((hi - lo + 1) as u64) as i64 }
    pub fn unit(&mut self) -> f64 { (self.next() >> 11) as f64 / (1u64 << 53) as f64 }
    pub fn chance(&mut self, num: u64, den: u64) -> bool { self.below(den) < num }
    pub fn pick<'a, T>(&mut self, xs: &'a [T]) -> &'a T { &xs[self.below(xs.len() as u64) as usize] }
}

pub fn ulps(x: f64, k: i64) -> f64 {
    if x.is_nan() || x.is_infinite() { return x; }
    // move k representable steps along the real line
    let to_ord = |b: u64| -> i64 { if b >> 63 == 1 { -((b & !(1u64 << 63)) as i64) } else { b as i64 } };
    let from_ord = |o: i64| -> u64 { if o < 0 { ((-o) as u64) | (1u64 << 63) } else { o as u64 } };
    f64::from_bits(from_ord(to_ord(x.to_bits()).saturating_add(k)))
}
