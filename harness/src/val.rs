//! values of the correspondence protocol and their text encoding (implementation side)
#[cfg(any(feature = "ml", feature = "all"))] use geonum::traits::Activation;
use geonum::{Angle, Geonum};
use std::cmp::Ordering;

#[derive(Clone, Debug)]
pub enum Val {
    F(f64),
    N(usize),
    I(i64),
    A(Angle),
    G(Geonum),
    L(Vec<Geonum>),
    #[cfg(any(feature = "ml", feature = "all"))] T(Activation),
}

impl Val {
    pub fn f(&self) -> Option<f64> { if let Val::F(x) = self { Some(*x) } else { None } }
    pub fn n(&self) -> Option<usize> { if let Val::N(x) = self { Some(*x) } else { None } }
    pub fn i(&self) -> Option<i64> { if let Val::I(x) = self { Some(*x) } else { None } }
    pub fn a(&self) -> Option<Angle> { if let Val::A(x) = self { Some(*x) } else { None } }
    pub fn g(&self) -> Option<Geonum> { if let Val::G(x) = self { Some(*x) } else { None } }
    pub fn l(&self) -> Option<Vec<Geonum>> { if let Val::L(x) = self { Some(x.clone()) } else { None } }
    #[cfg(any(feature = "ml", feature = "all"))] pub fn t(&self) -> Option<Activation> { if let Val::T(x) = self { Some(*x) } else { None } }
}

pub fn ff(x: f64) -> String {
    if x.is_nan() { "nan".to_string() } else { format!("{:016x}", x.to_bits()) }
}
/// input encoding keeps NaN payloads (inputs are never canonicalised)
pub fn ff_in(x: f64) -> String { format!("{:016x}", x.to_bits()) }
pub fn fa(a: &Angle) -> String { format!("{},{}", a.blade(), ff(a.rem())) }
pub fn fa_in(a: &Angle) -> String { format!("{},{}", a.blade(), ff_in(a.rem())) }
pub fn fg(g: &Geonum) -> String { format!("{},{},{}", ff(g.mag), g.angle.blade(), ff(g.angle.rem())) }
pub fn fg_in(g: &Geonum) -> String { format!("{},{},{}", ff_in(g.mag), g.angle.blade(), ff_in(g.angle.rem())) }
pub fn fl(l: &[Geonum]) -> String {
    format!("{}:{}", l.len(), l.iter().map(fg).collect::<Vec<_>>().join(";"))
}
pub fn fl_in(l: &[Geonum]) -> String {
    format!("{}:{}", l.len(), l.iter().map(fg_in).collect::<Vec<_>>().join(";"))
}
pub fn fo(o: Ordering) -> &'static str {
    match o { Ordering::Less => "lt", Ordering::Equal => "eq", Ordering::Greater => "gt" }
}
#[cfg(any(feature = "ml", feature = "all"))]
pub fn ft(t: Activation) -> &'static str {
    match t { Activation::ReLU => "relu", Activation::Sigmoid => "sigmoid", Activation::Tanh => "tanh", Activation::Identity => "identity" }
}

pub fn enc(v: &Val) -> String {
    match v {
        Val::F(x) => ff_in(*x),
        Val::N(n) => n.to_string(),
        Val::I(i) => i.to_string(),
        Val::A(a) => fa_in(a),
        Val::G(g) => fg_in(g),
        Val::L(l) => fl_in(l),
        #[cfg(any(feature = "ml", feature = "all"))] Val::T(t) => ft(*t).to_string(),
    }
}

pub fn line(name: &str, args: &[Val]) -> String {
    let mut s = name.to_string();
    for a in args { s.push(' '); s.push_str(&enc(a)); }
    s
}

pub fn pf(s: &str) -> Option<f64> {
    if s.len() != 16 { return None; }
    u64::from_str_radix(s, 16).ok().map(f64::from_bits)
}
pub fn mk_angle(blade: usize, rem: f64) -> Angle { Angle::verif_from_parts(blade, rem) }
pub fn mk_geonum(mag: f64, blade: usize, rem: f64) -> Geonum { Geonum::new_with_angle(mag, mk_angle(blade, rem)) }
pub fn pa(s: &str) -> Option<Angle> {
    let mut it = s.split(',');
    let b = it.next()?.parse::<usize>().ok()?;
    let r = pf(it.next()?)?;
    if it.next().is_some() { return None; }
    Some(mk_angle(b, r))
}
pub fn pg(s: &str) -> Option<Geonum> {
    let mut it = s.split(',');
    let m = pf(it.next()?)?;
    let b = it.next()?.parse::<usize>().ok()?;
    let r = pf(it.next()?)?;
    if it.next().is_some() { return None; }
    Some(mk_geonum(m, b, r))
}
pub fn pl(s: &str) -> Option<Vec<Geonum>> {
    let (n, body) = s.split_once(':')?;
    let n = n.parse::<usize>().ok()?;
    let items: Vec<&str> = if body.is_empty() { vec![] } else { body.split(';').collect() };
    if items.len() != n { return None; }
    items.into_iter().map(pg).collect()
}
#[cfg(any(feature = "ml", feature = "all"))]
pub fn pt(s: &str) -> Option<Activation> {
    Some(match s { "relu" => Activation::ReLU, "sigmoid" => Activation::Sigmoid, "tanh" => Activation::Tanh, "identity" => Activation::Identity, _ => return None })
}
pub fn parse_arg(kind: char, s: &str) -> Option<Val> {
    Some(match kind {
        'F' => Val::F(pf(s)?),
        'N' => Val::N(s.parse().ok()?),
        'I' => Val::I(s.parse().ok()?),
        'A' => Val::A(pa(s)?),
        'G' => Val::G(pg(s)?),
        'L' => Val::L(pl(s)?),
        #[cfg(any(feature = "ml", feature = "all"))] 'T' => Val::T(pt(s)?),
        _ => return None,
    })
}

pub fn out_f(x: f64) -> String { format!("F {}", ff(x)) }
pub fn out_n(n: usize) -> String { format!("N {}", n) }
pub fn out_b(b: bool) -> String { format!("B {}", b as u8) }
pub fn out_a(a: Angle) -> String { format!("A {}", fa(&a)) }
pub fn out_g(g: Geonum) -> String { format!("G {}", fg(&g)) }
pub fn out_l(l: Vec<Geonum>) -> String { format!("L {}", fl(&l)) }
pub fn out_o(o: Ordering) -> String { format!("O {}", fo(o)) }
pub fn out_oo(o: Option<Ordering>) -> String {
    match o { None => "none".to_string(), Some(o) => format!("Some O {}", fo(o)) }
}
pub fn out_og(g: Geonum) -> String { out_g(g) }
pub fn out_ol(l: Vec<Geonum>) -> String { out_l(l) }
pub fn out_oog(g: Option<Geonum>) -> String {
    match g { None => "none".to_string(), Some(g) => format!("Some {}", out_g(g)) }
}
