//! property oracles C05, C06, C08–C15 (Geonum level)
use crate::gen::*;
use crate::oracle::*;
use crate::rng::*;
use crate::val::*;
use geonum::{Angle, Geonum};
use std::f64::consts::PI;

const TOL: f64 = 1e-10;
const EPS: f64 = f64::EPSILON;

fn ulp_of(x: f64) -> f64 { let x = x.abs(); if x == 0.0 { 5e-324 } else { ulps(x, 1) - x } }
pub fn same_angle(a: &Angle, b: &Angle) -> bool { a.blade() == b.blade() && a.rem().to_bits() == b.rem().to_bits() }
pub fn same_geonum(a: &Geonum, b: &Geonum) -> bool { a.mag.to_bits() == b.mag.to_bits() && same_angle(&a.angle, &b.angle) }
pub fn show_a(a: &Angle) -> String { format!("[blade {} rem {:e}]", a.blade(), a.rem()) }
pub fn show_g(g: &Geonum) -> String { format!("[mag {:e} blade {} rem {:e}]", g.mag, g.angle.blade(), g.angle.rem()) }
fn canon(a: &Angle) -> Result<(), String> {
    let r = a.rem();
    if r.is_finite() && r >= 0.0 && r < QP { Ok(()) } else { Err(format!("non-canonical remainder {:e} (blade {})", r, a.blade())) }
}
fn mag_ok(what: &str, m: f64) -> Result<(), String> {
    if m.is_finite() && m >= 0.0 { Ok(()) } else { Err(format!("{}: magnitude {:e} is not finite and non-negative", what, m)) }
}
fn gg(v: &[Val]) -> (Geonum, Geonum) { (v[0].g().unwrap(), v[1].g().unwrap()) }
/// grade angle computed independently of `Angle::grade_angle`
fn ga(a: &Angle) -> f64 { (a.blade() % 4) as f64 * QP + a.rem() }
fn cart(g: &Geonum) -> (f64, f64) { let t = ga(&g.angle); (g.mag * t.cos(), g.mag * t.sin()) }
fn ang_dist(t1: f64, t2: f64) -> f64 {
    let mut d = (t1 - t2) % (2.0 * PI);
    if d < 0.0 { d += 2.0 * PI; }
    d.min(2.0 * PI - d)
}
/// how far the library's own `tb − ta` may legitimately be from the exact difference: the subtraction snaps only when the
/// remainders are within 1e-15 of each other (to an exact blade difference) or when the difference's remainder lands within
/// 1e-10 of a quarter turn; everywhere else it is exact up to a couple of roundings
fn diff_tol(a: &Angle, b: &Angle) -> f64 {
    let d = b.rem() - a.rem();
    let dr = if d < 0.0 { d + QP } else { d };
    if (QP - dr) < 2e-10 { 1.0e-10 + 1e-15 } else if d.abs() < 1.1e-15 { 1.2e-15 } else { 2e-15 }
}
fn catches<T, Fn_: FnOnce() -> T + std::panic::UnwindSafe>(f: Fn_) -> Option<T> { std::panic::catch_unwind(f).ok() }
fn in_dom(m: f64) -> bool { m == 0.0 || (m >= 1e-100 && m <= 1e100) }
/// moderate-magnitude pair (products stay far from overflow/underflow, so relative tolerances are meaningful)
fn moderate(g: &Geonum) -> bool { g.mag == 0.0 || (g.mag >= 1e-30 && g.mag <= 1e30) }

fn g_gg(r: &mut Rng) -> Vec<Val> { let (a, b) = gen_geonum_pair(r); vec![Val::G(a), Val::G(b)] }
fn g_ggg(r: &mut Rng) -> Vec<Val> { let (a, b) = gen_geonum_pair(r); let c = if r.chance(1, 2) { gen_geonum_pair(r).1 } else { gen_geonum(r) }; vec![Val::G(a), Val::G(b), Val::G(c)] }
fn g_g(r: &mut Rng) -> Vec<Val> { vec![Val::G(gen_geonum(r))] }
fn g_a(r: &mut Rng) -> Vec<Val> { vec![Val::A(gen_angle(r))] }
fn g_gf(r: &mut Rng) -> Vec<Val> { vec![Val::G(gen_geonum(r)), Val::F(gen_factor(r))] }
fn g_ga(r: &mut Rng) -> Vec<Val> { vec![Val::G(gen_geonum(r)), Val::A(gen_angle(r))] }
fn g_gn(r: &mut Rng) -> Vec<Val> { vec![Val::G(gen_geonum(r)), Val::N(gen_blade(r))] }

// ------------------------------------------------------------------------------------------------ C05
fn c05_mul(v: &[Val]) -> Result<bool, String> {
    let (a, b) = gg(v);
    let p = a * b;
    if p.mag.to_bits() != (a.mag * b.mag).to_bits() { return Err(format!("product magnitude {:e} is not {:e}*{:e}", p.mag, a.mag, b.mag)); }
    if !same_angle(&p.angle, &(a.angle + b.angle)) { return Err(format!("product angle {} is not the angle sum {}", show_a(&p.angle), show_a(&(a.angle + b.angle)))); }
    if !same_geonum(&p, &(b * a)) { return Err("a*b differs from b*a".into()); }
    for (i, x) in [&a * &b, &a * b, a * &b].iter().enumerate() { if !same_geonum(&p, x) { return Err(format!("mul spelling #{} differs", i)); } }
    // both borrows pointing at one object (`&a * &a`): same result as with a copy
    { let r = &a; let c = a;
      if !same_geonum(&(r * r), &(a * c)) { return Err(format!("&a * &a (one object borrowed twice) = {} differs from a * copy(a) = {}", show_g(&(r * r)), show_g(&(a * c)))); }
      if a.mag != 0.0 { if !same_geonum(&(r / r), &(a / c)) { return Err("&a / &a (one object borrowed twice) differs from a / copy(a)".into()); } }
      if !same_geonum(&r.dot(r), &a.dot(&c)) || !same_geonum(&r.wedge(r), &a.wedge(&c)) { return Err("a.dot(&a) / a.wedge(&a) (one object borrowed twice) differ from the copies' results".into()); } }
    let one = Geonum::new(1.0, 0.0, 1.0);
    if !same_geonum(&(a * one), &a) || !same_geonum(&(one * a), &a) { return Err(format!("[1,0] is not an identity for {}", show_g(&a))); }
    // Angle * Geonum, Angle + Geonum only rotate
    let x = b.angle;
    let want = Geonum::new_with_angle(a.mag, x + a.angle);
    for (i, y) in [x * a, x * &a, x + a, x + &a].iter().enumerate() { if !same_geonum(&want, y) { return Err(format!("Angle (*|+) Geonum form #{} is not a pure rotation", i)); } }
    Ok(a.mag != 0.0 && b.mag != 0.0)
}
fn c05_div(v: &[Val]) -> Result<bool, String> {
    let (a, b) = gg(v);
    let inv = catches(move || b.inv());
    if (b.mag == 0.0) != inv.is_none() { return Err(format!("inv panics={} for magnitude {:e}", inv.is_none(), b.mag)); }
    let nrm = catches(move || b.normalize());
    if (b.mag == 0.0) != nrm.is_none() { return Err(format!("normalize panics={} for magnitude {:e}", nrm.is_none(), b.mag)); }
    let forms: Vec<Option<Geonum>> = vec![catches(move || a / b), catches(move || &a / &b), catches(move || &a / b), catches(move || a / &b), catches(move || Geonum::div(&a, &b))];
    if let Some(i) = inv {
        if i.mag.to_bits() != (1.0 / b.mag).to_bits() { return Err("inverse magnitude is not 1/mag".into()); }
        if i.angle.blade() != b.angle.blade() + 2 || i.angle.rem().to_bits() != b.angle.rem().to_bits() { return Err(format!("inverse angle {} is not a half turn after {}", show_a(&i.angle), show_a(&b.angle))); }
        let want = a * i;
        for (k, f) in forms.iter().enumerate() {
            match f { Some(q) if same_geonum(q, &want) => {}, _ => return Err(format!("division spelling #{} is not multiplication by the inverse", k)) }
        }
        let n = nrm.unwrap();
        if n.mag != 1.0 || !same_angle(&n.angle, &b.angle) { return Err(format!("normalize gave {}", show_g(&n))); }
        Ok(true)
    } else {
        if forms.iter().any(|f| f.is_some()) { return Err("division by a zero magnitude did not panic in every spelling".into()); }
        Ok(false)
    }
}
fn c05_scale(v: &[Val]) -> Result<bool, String> {
    let g = v[0].g().unwrap(); let f = v[1].f().unwrap();
    let s = g.scale(f);
    if s.mag.to_bits() != (g.mag * f.abs()).to_bits() { return Err(format!("scale magnitude {:e} is not {:e}*|{:e}|", s.mag, g.mag, f)); }
    let d = if f < 0.0 { 2 } else { 0 };
    if s.angle.blade() != g.angle.blade() + d || s.angle.rem().to_bits() != g.angle.rem().to_bits() {
        return Err(format!("scale by {:e} turned {} into {}", f, show_a(&g.angle), show_a(&s.angle)));
    }
    let sc = Geonum::scalar(f);
    if sc.mag.to_bits() != f.abs().to_bits() || sc.angle.rem() != 0.0 || sc.angle.blade() != d { return Err(format!("scalar({:e}) = {}", f, show_g(&sc))); }
    Ok(f != 0.0)
}
fn g_pow(r: &mut Rng) -> Vec<Val> { gen_args("geonum.pow", "GF", r) }
fn c05_pow(v: &[Val]) -> Result<bool, String> {
    let g = v[0].g().unwrap(); let n = v[1].f().unwrap();
    let p = g.pow(n);
    if p.mag.to_bits() != g.mag.powf(n).to_bits() { return Err("pow magnitude is not mag^n".into()); }
    if !same_angle(&p.angle, &(g.angle * Angle::new(n, 1.0))) { return Err("pow angle is not angle + n*pi".into()); }
    Ok(true)
}
fn c05_assoc(v: &[Val]) -> Result<bool, String> {
    let (a, b, c) = (v[0].g().unwrap(), v[1].g().unwrap(), v[2].g().unwrap());
    if !(moderate(&a) && moderate(&b) && moderate(&c)) { return Ok(false); }
    let l = (a * b) * c; let r = a * (b * c);
    if (l.mag - r.mag).abs() > 4.0 * EPS * l.mag.max(r.mag) { return Err(format!("(ab)c magnitude {:e} vs a(bc) {:e}", l.mag, r.mag)); }
    let d = (l.angle.blade() as i128 - r.angle.blade() as i128) as f64 * QP + (l.angle.rem() - r.angle.rem());
    if d.abs() > 2.0 * TOL + 1e-14 { return Err(format!("(ab)c angle {} vs a(bc) {}", show_a(&l.angle), show_a(&r.angle))); }
    Ok(true)
}

// ------------------------------------------------------------------------------------------------ C06
/// tolerance for the Cartesian position of a sum with operand scale `s`, result length `r` and combined blade count `cb`
fn sum_tol(s: f64, r: f64, cb: usize) -> f64 {
    let shift = cb as f64 * QP;
    let dir = 4.0 * ulp_of(shift) + 4.0 * EPS + 2.0 * TOL; // direction error in radians (re-encoding subtracts cb·π/2; the snap to a quarter turn moves it by up to 1e-10)
    let cancel = if r < 1e-3 * s { 4.0 * EPS.sqrt() * s } else { 64.0 * EPS * s * s / r.max(1e-300) };
    TOL + r * dir + 64.0 * EPS * s + cancel.min(4.0 * EPS.sqrt() * s)
}
/// the same, but the 1e-10 rad direction allowance is granted only when the result's remainder is exactly 0 — the only way the
/// boundary snap can have moved the direction; otherwise the direction is good to a few ulps of the shifted total
fn sum_tol_res(s: f64, r: f64, cb: usize, res: &Geonum) -> f64 {
    if res.angle.rem() == 0.0 { return sum_tol(s, r, cb); }
    let shift = (cb as f64 * QP).max(8.0);
    let dir = 8.0 * ulp_of(shift) + 8.0 * EPS;
    let cancel = if r < 1e-3 * s { 4.0 * EPS.sqrt() * s } else { 64.0 * EPS * s * s / r.max(1e-300) };
    TOL + r * dir + 64.0 * EPS * s + cancel.min(4.0 * EPS.sqrt() * s)
}
/// operands of very different size: the small one is between 1e-15 and 1e-9 of the large one (it must still move the sum)
fn g_c06(r: &mut Rng) -> Vec<Val> {
    if !r.chance(1, 4) { return g_gg(r); }
    let big = log_uniform(r, -2.0, 8.0);
    let small = big * log_uniform(r, -15.0, -9.0);
    let (x, y) = gen_angle_pair(r);
    let (a, b) = (Geonum::new_with_angle(big, x), Geonum::new_with_angle(small, y));
    if r.chance(1, 2) { vec![Val::G(a), Val::G(b)] } else { vec![Val::G(b), Val::G(a)] }
}
fn c06_sum(v: &[Val]) -> Result<bool, String> {
    let (a, b) = gg(v);
    let s = a + b;
    mag_ok("a+b", s.mag)?; canon(&s.angle)?;
    let d = a - b;
    mag_ok("a-b", d.mag)?; canon(&d.angle)?;
    if !same_geonum(&d, &(a + b.negate())) { return Err("a-b is not a + b.negate()".into()); }
    for (i, x) in [&a + &b, &a + b, a + &b].iter().enumerate() { if !same_geonum(&s, x) { return Err(format!("add spelling #{} differs", i)); } }
    for (i, x) in [&a - &b, &a - b, a - &b].iter().enumerate() { if !same_geonum(&d, x) { return Err(format!("sub spelling #{} differs", i)); } }
    {
        use geonum::traits::Affine;
        if !same_geonum(&s, &a.translate(&b)) { return Err("translate is not addition".into()); }
    }
    let z = a - a;
    if z.mag != 0.0 { return Err(format!("a-a has magnitude {:e}", z.mag)); }
    { let r = &a; let c = a;
      if !same_geonum(&(r + r), &(a + c)) || !same_geonum(&(r - r), &(a - c)) { return Err(format!("&a + &a / &a - &a (one object borrowed twice) differ from the results with a copy, a = {}", show_g(&a))); } }
    // a+b vs b+a
    let t = b + a;
    if t.mag.to_bits() != s.mag.to_bits() || t.angle.blade() != s.angle.blade() || (t.angle.rem() - s.angle.rem()).abs() > 1e-15 {
        return Err(format!("a+b = {} but b+a = {}", show_g(&s), show_g(&t)));
    }
    if !(moderate(&a) && moderate(&b)) { return Ok(false); }
    // Cartesian meaning
    let (ax, ay) = cart(&a); let (bx, by) = cart(&b);
    for (what, res, ex, ey) in [("a+b", s, ax + bx, ay + by), ("a-b", d, ax - bx, ay - by)] {
        let (sx, sy) = cart(&res);
        let scale = a.mag.max(b.mag);
        let r = (ex * ex + ey * ey).sqrt();
        let tol = sum_tol_res(scale, r.max(res.mag), a.angle.blade() + b.angle.blade() + 2, &res);
        let err = ((sx - ex).powi(2) + (sy - ey).powi(2)).sqrt();
        if err > tol { return Err(format!("{} = {} is ({:e},{:e}) but the component sum is ({:e},{:e}); off by {:e} > {:e}", what, show_g(&res), sx, sy, ex, ey, err, tol)); }
    }
    Ok(a.mag != 0.0 && b.mag != 0.0)
}
fn g_seq(r: &mut Rng) -> Vec<Val> {
    let n = r.range(2, 60) as usize;
    let s = log_uniform(r, -2.0, 2.0);
    let l: Vec<Geonum> = (0..n).map(|_| Geonum::new_with_angle(s * (0.1 + r.unit()), mk_angle(r.below(2000) as usize, gen_rem(r)))).collect();
    vec![Val::L(l)]
}
fn c06_running(v: &[Val]) -> Result<bool, String> {
    let l = v[0].l().unwrap();
    let mut acc = l[0];
    let (mut ex, mut ey) = cart(&acc);
    let mut tol = 0.0; let mut scale = acc.mag;
    for g in &l[1..] {
        let before = acc;
        acc = acc + *g;
        mag_ok("running sum", acc.mag)?; canon(&acc.angle)?;
        let (gx, gy) = cart(g); ex += gx; ey += gy;
        scale = scale.max(g.mag).max(acc.mag);
        tol += sum_tol(before.mag.max(g.mag), acc.mag, before.angle.blade() + g.angle.blade() + 2);
        if acc.angle.blade() > (1 << 44) { break; }
    }
    let (sx, sy) = cart(&acc);
    let err = ((sx - ex).powi(2) + (sy - ey).powi(2)).sqrt();
    if err > tol + 64.0 * EPS * scale * l.len() as f64 { return Err(format!("running sum of {} terms is off by {:e} (tol {:e})", l.len(), err, tol)); }
    Ok(true)
}

// ------------------------------------------------------------------------------------------------ C14
fn g_c14(r: &mut Rng) -> Vec<Val> {
    let (a, b) = gen_geonum_pair(r);
    match r.below(4) {
        0 => { let (m, n) = gen_mag_pair(r); vec![Val::G(Geonum::new_with_angle(m, a.angle)), Val::G(Geonum::new_with_angle(n, a.angle))] }
        1 => { let (m, n) = gen_mag_pair(r); let o = if r.chance(1, 2) { a.angle.negate() } else { mk_angle(a.angle.blade() + *r.pick(&[2usize, 2, 6, 10]), a.angle.rem()) };
               let (x, y) = (Geonum::new_with_angle(m, a.angle), Geonum::new_with_angle(n, o)); if r.chance(1, 2) { vec![Val::G(x), Val::G(y)] } else { vec![Val::G(y), Val::G(x)] } }
        _ => vec![Val::G(a), Val::G(b)],
    }
}
fn c14_policy(v: &[Val]) -> Result<bool, String> {
    let (a, b) = gg(v);
    let s = a + b; let t = b + a;
    if s.angle.blade() != t.angle.blade() { return Err(format!("a+b has blade {} but b+a has blade {}", s.angle.blade(), t.angle.blade())); }
    let (ta, tb) = (ga(&a.angle), ga(&b.angle));
    let cb = a.angle.blade() + b.angle.blade();
    let identical = same_angle(&a.angle, &b.angle);
    // exactly a half turn apart as angle values (the library's equality is blade-exact): same remainder, blade counts
    // differ by exactly 2; a gap of 6, 10, … is "a half turn plus whole turns" and falls under either-policy-acceptable
    let opposite = a.angle.rem().to_bits() == b.angle.rem().to_bits() && (a.angle.blade() as i128 - b.angle.blade() as i128).abs() == 2;
    if identical {
        if !same_angle(&s.angle, &a.angle) { return Err(format!("identical angles {} but the sum has angle {}", show_a(&a.angle), show_a(&s.angle))); }
        return Ok(true);
    }
    if opposite {
        let diff = a.mag - b.mag;
        if diff.abs() < 1e-10 {
            if s.mag != 0.0 || s.angle.rem() != 0.0 || s.angle.blade() != cb { return Err(format!("cancelling opposite summands gave {} (expected magnitude 0, remainder 0, blade {})", show_g(&s), cb)); }
        } else {
            let keep = if diff > 0.0 { a.angle } else { b.angle };
            if !same_angle(&s.angle, &keep) { return Err(format!("opposite summands: kept {} instead of the larger summand's {}", show_a(&s.angle), show_a(&keep))); }
        }
        return Ok(true);
    }
    // general regime, away from both boundaries by more than 1e-9 rad
    let sep = ang_dist(ta, tb);
    if sep < 1e-9 || (PI - sep).abs() < 1e-9 { return Ok(false); }
    if s.angle.blade() < cb || s.angle.blade() > cb + 4 || (s.angle.blade() == cb + 4 && s.angle.rem() != 0.0) {
        let u = ulp_of(cb as f64 * QP);
        let tag = if u >= 1e-11 { format!(" [large-blade rounding: ulp(blade_sum*pi/2)={:e}]", u) } else { String::new() };
        return Err(format!("general sum has blade {} for operand blades {}+{} (rem {:e}){}", s.angle.blade(), a.angle.blade(), b.angle.blade(), s.angle.rem(), tag));
    }
    Ok(true)
}

// ------------------------------------------------------------------------------------------------ C09 / C10
fn g_c09(r: &mut Rng) -> Vec<Val> {
    if r.chance(1, 5) { let (a, b) = gen_dot_threshold_pair(r); vec![Val::G(a), Val::G(b)] } else { g_gg(r) }
}
fn c09_dot(v: &[Val]) -> Result<bool, String> {
    let (a, b) = gg(v);
    let d = a.dot(&b);
    mag_ok("dot", d.mag)?;
    if d.angle.rem() != 0.0 || (d.angle.blade() != 0 && d.angle.blade() != 2) { return Err(format!("dot angle {} is not exactly 0 or pi", show_a(&d.angle))); }
    if a.is_orthogonal(&b) != (d.mag < 1e-10) { return Err("is_orthogonal disagrees with dot magnitude < 1e-10".into()); }
    let s = a.dot(&a);
    if s.mag.to_bits() != (a.mag * a.mag).to_bits() || s.angle.blade() != 0 { return Err(format!("a.a = {} but |a|^2 = {:e}", show_g(&s), a.mag * a.mag)); }
    if !(moderate(&a) && moderate(&b)) { return Ok(false); }
    let ab = a.mag * b.mag;
    if d.mag > ab * (1.0 + 4.0 * EPS) { return Err(format!("|a.b| = {:e} exceeds |a||b| = {:e}", d.mag, ab)); }
    let want = ab * (ga(&b.angle) - ga(&a.angle)).cos();
    let got = if d.angle.blade() == 2 { -d.mag } else { d.mag };
    let tol = ab * (diff_tol(&a.angle, &b.angle) + 16.0 * EPS);
    if (got - want).abs() > tol { return Err(format!("a.b = {:e} but |a||b|cos = {:e}", got, want)); }
    if ab == 0.0 && d.angle.blade() != 0 { return Err("a zero dot product (non-negative value) is not at angle 0".into()); }
    let tol = tol + ab * diff_tol(&b.angle, &a.angle);
    let e = b.dot(&a);
    let got2 = if e.angle.blade() == 2 { -e.mag } else { e.mag };
    if (got - got2).abs() > tol { return Err(format!("a.b = {:e} but b.a = {:e}", got, got2)); }
    Ok(ab != 0.0)
}
fn c10_wedge(v: &[Val]) -> Result<bool, String> {
    let (a, b) = gg(v);
    let w = a.wedge(&b);
    mag_ok("wedge", w.mag)?; canon(&w.angle)?;
    if !same_geonum(&a.geo(&b), &(a.dot(&b) + w)) { return Err("geo is not dot + wedge".into()); }
    if !same_geonum(&a.meet(&b), &a.dual().wedge(&b.dual()).dual()) { return Err("meet is not dual(wedge(dual, dual))".into()); }
    if !(moderate(&a) && moderate(&b)) { return Ok(false); }
    let ab = a.mag * b.mag;
    let delta = ga(&b.angle) - ga(&a.angle);
    let sn = delta.sin();
    let tol = ab * (diff_tol(&a.angle, &b.angle) + 16.0 * EPS);
    if (w.mag - ab * sn.abs()).abs() > tol { return Err(format!("|a^b| = {:e} but |a||b||sin| = {:e}", w.mag, ab * sn.abs())); }
    let base = a.angle + b.angle + Angle::new(1.0, 2.0);
    if sn.abs() > 1e-9 {
        let want = if sn < 0.0 { base + Angle::new(1.0, 1.0) } else { base };
        if !same_angle(&w.angle, &want) { return Err(format!("wedge angle {} but ta+tb+pi/2{} = {}", show_a(&w.angle), if sn < 0.0 { "+pi" } else { "" }, show_a(&want))); }
        let x = b.wedge(&a);
        if (x.mag - w.mag).abs() > tol + ab * diff_tol(&b.angle, &a.angle) { return Err("swapping the wedge operands changed the magnitude".into()); }
        if (x.angle.blade() as i128 - w.angle.blade() as i128).abs() != 2 { return Err(format!("swapping the wedge operands moved the blade count from {} to {}", w.angle.blade(), x.angle.blade())); }
    } else if !same_angle(&w.angle, &base) && !same_angle(&w.angle, &(base + Angle::new(1.0, 1.0))) {
        return Err("wedge angle is neither ta+tb+pi/2 nor that plus pi".into());
    }
    let d = a.dot(&b);
    let lag = d.mag * d.mag + w.mag * w.mag;
    if (lag - ab * ab).abs() > ab * ab * 1e-9 { return Err(format!("dot^2 + wedge^2 = {:e} but (|a||b|)^2 = {:e}", lag, ab * ab)); }
    Ok(ab != 0.0)
}

// ------------------------------------------------------------------------------------------------ C11
fn c11_project(v: &[Val]) -> Result<bool, String> {
    let (a, b) = gg(v);
    let p = a.project(&b);
    mag_ok("project", p.mag)?; canon(&p.angle)?;
    let rj = a.reject(&b);
    mag_ok("reject", rj.mag)?; canon(&rj.angle)?;
    if !same_geonum(&rj, &(a - p)) { return Err("reject is not a - project".into()); }
    if b.mag < 1e-10 { return Ok(false); }
    // independence of |b|
    let b2 = Geonum::new_with_angle(if b.mag > 1.0 { b.mag * 0.37 } else { b.mag * 41.0 + 1.0 }, b.angle);
    if !same_geonum(&p, &a.project(&b2)) { return Err("projection depends on the length of the target".into()); }
    let c = (ga(&b.angle) - ga(&a.angle)).cos();
    if !same_angle(&p.angle, &b.angle) && !same_angle(&p.angle, &(b.angle + Angle::new(1.0, 1.0))) { return Err(format!("projection angle {} is neither b's {} nor b's + pi", show_a(&p.angle), show_a(&b.angle))); }
    if c.abs() > 1e-9 {
        let want = if c < 0.0 { b.angle + Angle::new(1.0, 1.0) } else { b.angle };
        if !same_angle(&p.angle, &want) { return Err(format!("projection angle {} but cos = {:e} wants {}", show_a(&p.angle), c, show_a(&want))); }
    }
    if !moderate(&a) { return Ok(false); }
    let tol = a.mag * (diff_tol(&a.angle, &b.angle) + 16.0 * EPS);
    if (p.mag - a.mag * c.abs()).abs() > tol { return Err(format!("|proj| = {:e} but |a||cos| = {:e}", p.mag, a.mag * c.abs())); }
    // decomposition: proj + rej = a, rej ⟂ b, Pythagoras
    let (px, py) = cart(&p); let (rx, ry) = cart(&rj); let (ax, ay) = cart(&a);
    let big = a.angle.blade() + p.angle.blade() + 4;
    let t2 = sum_tol_pub(a.mag, rj.mag, big) * 2.0 + a.mag * (4.0 * TOL + 64.0 * EPS);
    if ((px + rx - ax).powi(2) + (py + ry - ay).powi(2)).sqrt() > t2 { return Err(format!("proj + rej misses a by {:e}", ((px + rx - ax).powi(2) + (py + ry - ay).powi(2)).sqrt())); }
    let tb = ga(&b.angle);
    let along = rx * tb.cos() + ry * tb.sin();
    if along.abs() > t2 { return Err(format!("rejection has component {:e} along b", along)); }
    let pyth = p.mag * p.mag + rj.mag * rj.mag;
    if (pyth - a.mag * a.mag).abs() > a.mag * a.mag * 1e-7 + t2 * a.mag * 4.0 { return Err(format!("|proj|^2+|rej|^2 = {:e} but |a|^2 = {:e}", pyth, a.mag * a.mag)); }
    Ok(a.mag != 0.0)
}
pub fn sum_tol_pub(s: f64, r: f64, cb: usize) -> f64 { sum_tol(s, r, cb) }
fn c11_angle(v: &[Val]) -> Result<bool, String> {
    let g = v[0].g().unwrap(); let onto = v[1].a().unwrap();
    let c = (ga(&onto) - ga(&g.angle)).cos();
    let got = g.angle.project(onto);
    if (got - c).abs() > diff_tol(&g.angle, &onto) + 8.0 * EPS { return Err(format!("Angle::project = {:e} but cos of the difference = {:e}", got, c)); }
    let p = g.project_to_angle(onto);
    mag_ok("project_to_angle", p.mag)?;
    if p.angle.rem() != 0.0 || (p.angle.blade() != 0 && p.angle.blade() != 2) { return Err(format!("project_to_angle angle {}", show_a(&p.angle))); }
    if moderate(&g) {
        let sv = if p.angle.blade() == 2 { -p.mag } else { p.mag };
        if (sv - g.mag * c).abs() > g.mag * (2.0 * TOL + 16.0 * EPS) { return Err(format!("project_to_angle = {:e} but |a|cos = {:e}", sv, g.mag * c)); }
    }
    Ok(true)
}
fn c11_dim(v: &[Val]) -> Result<bool, String> {
    let g = v[0].g().unwrap(); let k = v[1].n().unwrap();
    let got = g.project_to_dimension(k);
    if !got.is_finite() { return Err("project_to_dimension not finite".into()); }
    if !moderate(&g) { return Ok(false); }
    let want = g.mag * ((k % 4) as f64 * QP - ga(&g.angle)).cos();
    if (got - want).abs() > g.mag * (2.0 * TOL + 16.0 * EPS) { return Err(format!("project_to_dimension({}) = {:e} but |a|cos(k pi/2 - t) = {:e}", k, got, want)); }
    Ok(g.mag != 0.0)
}

// ------------------------------------------------------------------------------------------------ C12
fn c12_rotate(v: &[Val]) -> Result<bool, String> {
    let g = v[0].g().unwrap(); let r = v[1].a().unwrap();
    let x = g.rotate(r);
    if x.mag.to_bits() != g.mag.to_bits() { return Err("rotation changed the magnitude".into()); }
    if !same_angle(&x.angle, &(g.angle + r)) { return Err("rotation is not angle addition".into()); }
    let full = g.rotate(Angle::new(4.0, 2.0));
    if full.angle.blade() != g.angle.blade() + 4 || full.angle.rem().to_bits() != g.angle.rem().to_bits() { return Err("a full turn changed grade or remainder".into()); }
    let r2 = Angle::new(1.0, 3.0);
    let two = g.rotate(r).rotate(r2); let once = g.rotate(r + r2);
    let d = (two.angle.blade() as i128 - once.angle.blade() as i128) as f64 * QP + (two.angle.rem() - once.angle.rem());
    if d.abs() > 2.0 * TOL + 1e-14 { return Err(format!("rotations do not compose additively: {} vs {}", show_a(&two.angle), show_a(&once.angle))); }
    Ok(true)
}
fn c12_reflect(v: &[Val]) -> Result<bool, String> {
    let (g, axis) = gg(v);
    let x = g.reflect(&axis);
    canon(&x.angle)?;
    if x.mag.to_bits() != g.mag.to_bits() { return Err("reflection changed the magnitude".into()); }
    if x.angle.blade() < 2 * axis.angle.blade() { return Err(format!("reflection has {} blades, fewer than twice the axis's {}", x.angle.blade(), axis.angle.blade())); }
    let want = 2.0 * ga(&axis.angle) - ga(&g.angle);
    let dtol = 4.0 * TOL + 1e-13;
    if ang_dist(ga(&x.angle), want) > dtol { return Err(format!("reflection direction {:e} but 2*alpha - t = {:e}", ga(&x.angle), want)); }
    let other = Geonum::new_with_angle(axis.mag * 3.0 + 1.0, axis.angle);
    if !same_geonum(&x, &g.reflect(&other)) { return Err("reflection depends on the axis length".into()); }
    let neg = g.reflect(&axis.negate());
    if ang_dist(ga(&neg.angle), ga(&x.angle)) > dtol { return Err("reflection across the negated axis points elsewhere".into()); }
    let twice = x.reflect(&axis);
    if ang_dist(ga(&twice.angle), ga(&g.angle)) > 2.0 * dtol || twice.mag.to_bits() != g.mag.to_bits() { return Err(format!("reflecting twice gives direction {:e} instead of {:e}", ga(&twice.angle), ga(&g.angle))); }
    let on = Geonum::new_with_angle(g.mag, axis.angle).reflect(&axis);
    if ang_dist(ga(&on.angle), ga(&axis.angle)) > dtol { return Err("a number on the axis changed direction under reflection".into()); }
    Ok(true)
}
fn g_sr(r: &mut Rng) -> Vec<Val> { vec![Val::G(gen_geonum(r)), Val::F(gen_factor(r)), Val::A(gen_angle(r))] }
fn c12_scale_rotate(v: &[Val]) -> Result<bool, String> {
    let g = v[0].g().unwrap(); let f = v[1].f().unwrap(); let r = v[2].a().unwrap();
    let x = g.scale_rotate(f, r);
    mag_ok("scale_rotate", x.mag)?; canon(&x.angle)?;
    if x.mag != g.mag * f.abs() { return Err("scale_rotate magnitude is not |g||f|".into()); }
    let want = if f < 0.0 { g.angle.negate() + r } else { g.angle + r };
    if !same_angle(&x.angle, &want) { return Err(format!("scale_rotate angle {} (factor {:e})", show_a(&x.angle), f)); }
    let wdir = ga(&g.angle) + ga(&r) + if f < 0.0 { PI } else { 0.0 };
    if ang_dist(ga(&x.angle), wdir) > 3.0 * TOL + 1e-13 { return Err("scale_rotate direction is not t + r (+pi for a negative factor)".into()); }
    Ok(f != 0.0)
}

// ------------------------------------------------------------------------------------------------ C13
fn dist_tol(a: &Geonum, b: &Geonum, d: f64) -> f64 {
    let s = a.mag.max(b.mag);
    let c = if d < 1e-3 * s { 4.0 * EPS.sqrt() * s } else { 64.0 * EPS * s * s / d.max(1e-300) };
    c.min(4.0 * EPS.sqrt() * s) + 64.0 * EPS * s + 2.0 * TOL * s + TOL
}
/// nearly coincident points by DIRECTION: the same ray up to 1e-9.5 … 1e-5 rad, magnitudes equal or a few 1e-12 … 1e-6 apart, any blade history
fn g_c13d(r: &mut Rng) -> Vec<Val> {
    if !r.chance(1, 4) { return g_gg(r); }
    let s = log_uniform(r, -3.0, 4.0);
    let rem = 0.05 + r.unit() * 1.4;
    let gap = 10f64.powf(-9.5 + r.unit() * 4.5) * if r.chance(1, 2) { 1.0 } else { -1.0 };
    let bl = r.below(40) as usize;
    let a = Geonum::new_with_angle(s, mk_angle(bl, rem));
    let m = if r.chance(1, 2) { s } else { s * (1.0 + (r.unit() - 0.5) * 10f64.powf(-12.0 + r.unit() * 6.0)) };
    let b = Geonum::new_with_angle(m, mk_angle(bl + 4 * r.below(3) as usize, rem + gap));
    if r.chance(1, 2) { vec![Val::G(a), Val::G(b)] } else { vec![Val::G(b), Val::G(a)] }
}
fn c13_distance(v: &[Val]) -> Result<bool, String> {
    let (a, b) = gg(v);
    let d = a.distance_to(&b);
    mag_ok("distance_to", d.mag)?;
    if d.angle.blade() != 0 || d.angle.rem() != 0.0 { return Err(format!("distance angle is {}", show_a(&d.angle))); }
    if a.distance_to(&a).mag != 0.0 { return Err("distance from a point to itself is not 0".into()); }
    if a.mag_diff(&b).to_bits() != (a.mag - b.mag).abs().to_bits() { return Err("mag_diff is not ||a|-|b||".into()); }
    if !(moderate(&a) && moderate(&b)) { return Ok(false); }
    let (ax, ay) = cart(&a); let (bx, by) = cart(&b);
    let e = ((ax - bx).powi(2) + (ay - by).powi(2)).sqrt();
    let tol = dist_tol(&a, &b, e.max(d.mag));
    if (d.mag - e).abs() > tol { return Err(format!("distance {:e} but the Euclidean distance is {:e} (tol {:e})", d.mag, e, tol)); }
    let r = b.distance_to(&a);
    if (d.mag - r.mag).abs() > tol { return Err(format!("distance not symmetric: {:e} vs {:e}", d.mag, r.mag)); }
    let s = (a - b).mag;
    if (d.mag - s).abs() > 2.0 * tol { return Err(format!("distance {:e} but |a-b| = {:e}", d.mag, s)); }
    Ok(a.mag != 0.0 && b.mag != 0.0)
}
fn c13_triangle(v: &[Val]) -> Result<bool, String> {
    let (a, b, c) = (v[0].g().unwrap(), v[1].g().unwrap(), v[2].g().unwrap());
    if !(moderate(&a) && moderate(&b) && moderate(&c)) { return Ok(false); }
    let (ab, bc, ac) = (a.distance_to(&b).mag, b.distance_to(&c).mag, a.distance_to(&c).mag);
    let tol = dist_tol(&a, &b, ab) + dist_tol(&b, &c, bc) + dist_tol(&a, &c, ac);
    if ac > ab + bc + tol { return Err(format!("triangle inequality: d(a,c)={:e} > d(a,b)+d(b,c)={:e}", ac, ab + bc)); }
    Ok(true)
}
fn g_inv(r: &mut Rng) -> Vec<Val> {
    if r.chance(1, 6) { let p = gen_geonum(r); return vec![Val::G(p), Val::G(p), Val::F(gen_pos(r))]; }
    if r.chance(1, 5) {
        // the quantifier's nearly coincident points: magnitudes a few ulps apart on one ray, over eight orders of magnitude
        let c = Geonum::new_with_angle(log_uniform(r, -4.0, 9.0), mk_angle(r.below(40) as usize, gen_rem(r)));
        let k = 1 + r.below(8);
        let bits = if r.chance(1, 2) { c.mag.to_bits() + k } else { c.mag.to_bits() - k };
        let p = Geonum::new_with_angle(f64::from_bits(bits), c.angle);
        return vec![Val::G(p), Val::G(c), Val::F(log_uniform(r, -2.0, 2.0))];
    }
    let c = Geonum::new_with_angle(if r.chance(1, 4) { 0.0 } else { log_uniform(r, -2.0, 2.0) }, mk_angle(r.below(40) as usize, gen_rem(r)));
    let rad = log_uniform(r, -2.0, 2.0);
    let off = Geonum::new_with_angle(rad * log_uniform(r, -2.0, 2.0), mk_angle(r.below(8) as usize, gen_rem(r)));
    let p = if r.chance(1, 5) { c + Geonum::new_with_angle(rad, off.angle) } else { c + off };
    vec![Val::G(p), Val::G(c), Val::F(rad)]
}
fn c13_invert(v: &[Val]) -> Result<bool, String> {
    let p = v[0].g().unwrap(); let c = v[1].g().unwrap(); let rad = v[2].f().unwrap();
    let off = p - c;
    let res = catches(move || p.invert_circle(&c, rad));
    if (off.mag == 0.0) != res.is_none() { return Err(format!("invert_circle panics={} but |p-c| = {:e}", res.is_none(), off.mag)); }
    // independent of the library's own subtraction: two points on one ray (bit-identical angles) are |p|-|c| apart exactly, and the
    // documented panic is "at the centre" (offsets below the 1e-10 cancellation threshold count as the centre)
    if same_angle(&p.angle, &c.angle) && p.mag.is_finite() && c.mag.is_finite() {
        let gap = (p.mag - c.mag).abs();
        if gap >= 1e-10 * (1.0 + 1e-9) && res.is_none() { return Err(format!("invert_circle panicked although p is {:e} away from the centre on the same ray (|p| = {:e}, |c| = {:e})", gap, p.mag, c.mag)); }
        if gap < 1e-10 * (1.0 - 1e-9) && res.is_some() { return Err(format!("invert_circle did not panic {:e} from the centre", gap)); }
        if gap >= 1e-10 * (1.0 + 1e-9) && (off.mag - gap).abs() > 4.0 * EPS * gap { return Err(format!("|p-c| = {:e} on one ray but |p|-|c| = {:e}", off.mag, gap)); }
    }
    let q = match res { Some(q) => q, None => return Ok(false) };
    mag_ok("invert_circle", q.mag)?; canon(&q.angle)?;
    let scale = p.mag.max(c.mag).max(q.mag).max(rad);
    if off.mag < 1e-4 * scale || !moderate(&p) || !moderate(&c) { return Ok(false); }
    let qo = q - c;
    let cond = (rad * rad / (off.mag * off.mag)).max(1.0);
    let k = qo.mag * off.mag;
    let rel = 1e-6 * cond * (scale / off.mag).max(1.0) * (scale / qo.mag.max(1e-300)).max(1.0);
    if (k - rad * rad).abs() > rad * rad * rel.min(0.5) + 1e-9 { return Err(format!("|p'-c||p-c| = {:e} but r^2 = {:e}", k, rad * rad)); }
    if rel < 1e-3 && ang_dist(ga(&qo.angle), ga(&off.angle)) > 1e-3 { return Err(format!("inverted point is not on the same ray from the centre ({:e} vs {:e})", ga(&qo.angle), ga(&off.angle))); }
    Ok(true)
}

// ------------------------------------------------------------------------------------------------ C15
fn c15_trig(v: &[Val]) -> Result<bool, String> {
    let a = v[0].a().unwrap();
    let t = ga(&a);
    let c = Geonum::cos(a); let s = Geonum::sin(a);
    if c.angle.rem() != 0.0 || (c.angle.blade() != 0 && c.angle.blade() != 2) { return Err(format!("cos angle {}", show_a(&c.angle))); }
    if s.angle.rem() != 0.0 || (s.angle.blade() != 1 && s.angle.blade() != 3) { return Err(format!("sin angle {}", show_a(&s.angle))); }
    let cv = if c.angle.blade() == 2 { -c.mag } else { c.mag };
    let sv = if s.angle.blade() == 3 { -s.mag } else { s.mag };
    let tl = a.grade_angle();
    if c.mag.to_bits() != tl.cos().abs().to_bits() || s.mag.to_bits() != tl.sin().abs().to_bits() {
        return Err(format!("cos/sin magnitudes {:e}/{:e} are not |cos t|/|sin t| = {:e}/{:e}", c.mag, s.mag, tl.cos().abs(), tl.sin().abs()));
    }
    if (cv - t.cos()).abs() > 4.0 * EPS || (sv - t.sin()).abs() > 4.0 * EPS { return Err(format!("cos/sin = {:e}/{:e} but the trig values are {:e}/{:e}", cv, sv, t.cos(), t.sin())); }
    if (c.mag * c.mag + s.mag * s.mag - 1.0).abs() > 8.0 * EPS { return Err("cos^2 + sin^2 != 1".into()); }
    let tn = catches(move || Geonum::tan(a));
    let want = catches(move || s.div(&c));
    match (tn, want) {
        (Some(x), Some(y)) => {
            if !same_geonum(&x, &y) { return Err("tan is not sin.div(cos)".into()); }
            if x.angle.blade() % 2 != 1 { return Err(format!("tan has even grade (blade {})", x.angle.blade())); }
            if c.mag > 1e-6 {
                if (x.mag - t.tan().abs()).abs() > 1e-9 * (1.0 + x.mag) { return Err(format!("|tan| = {:e} but {:e}", x.mag, t.tan().abs())); }
                let y2 = Geonum::tan(a + Angle::new(1.0, 1.0));
                if (y2.mag - x.mag).abs() > 1e-9 * (1.0 + x.mag) { return Err("tan does not have period pi".into()); }
            }
        }
        (None, None) => return Err("tan panicked (the cosine of a binary64 grade angle is never exactly zero)".into()),
        _ => return Err("tan and sin.div(cos) disagree on panicking".into()),
    }
    Ok(a.rem() != 0.0)
}
fn c15_adj(v: &[Val]) -> Result<bool, String> {
    let g = v[0].g().unwrap();
    let (ad, op) = (g.adj(), g.opp());
    if !same_geonum(&ad, &Geonum::cos(g.angle).scale(g.mag)) || !same_geonum(&op, &Geonum::sin(g.angle).scale(g.mag)) { return Err("adj/opp are not cos/sin scaled by the magnitude".into()); }
    mag_ok("adj", ad.mag)?; mag_ok("opp", op.mag)?;
    if !moderate(&g) { return Ok(false); }
    let (x, y) = cart(&g);
    let av = if ad.angle.blade() % 4 == 2 { -ad.mag } else { ad.mag };
    let ov = if op.angle.blade() % 4 == 3 { -op.mag } else { op.mag };
    if ad.angle.blade() % 2 != 0 || op.angle.blade() % 2 != 1 { return Err("adj/opp left the quarter-turn lattice".into()); }
    if (av - x).abs() > 8.0 * EPS * g.mag || (ov - y).abs() > 8.0 * EPS * g.mag { return Err(format!("adj/opp = ({:e},{:e}) but the Cartesian components are ({:e},{:e})", av, ov, x, y)); }
    if (ad.mag * ad.mag + op.mag * op.mag - g.mag * g.mag).abs() > 16.0 * EPS * g.mag * g.mag { return Err("adj^2 + opp^2 != |g|^2".into()); }
    Ok(g.mag != 0.0)
}

// ------------------------------------------------------------------------------------------------ C08
fn g_shift(r: &mut Rng) -> Vec<Val> {
    let (a, b) = gen_geonum_pair(r);
    let small = |g: Geonum| Geonum::new_with_angle(g.mag, mk_angle(g.angle.blade() % 4096, g.angle.rem()));
    let n = match r.below(4) { 0 => 1 + r.below(4), 1 => r.below(1 << 19), 2 => r.below(1 << 30), _ => 1 + r.below(1000) } as usize;
    let m = if r.chance(1, 2) { 0 } else { r.below(1 << 30) as usize };
    vec![Val::G(small(a)), Val::G(small(b)), Val::N(n), Val::N(m)]
}
fn c08_shift(v: &[Val]) -> Result<bool, String> {
    let (a, b) = gg(v); let n = v[2].n().unwrap(); let m = v[3].n().unwrap();
    let sh = |g: &Geonum, k: usize| Geonum::new_with_angle(g.mag, mk_angle(g.angle.blade() + 4 * k, g.angle.rem()));
    let (a2, b2) = (sh(&a, n), sh(&b, m));
    let chk = |what: &str, x: f64, y: f64| -> Result<(), String> { if x.to_bits() != y.to_bits() && !(x.is_nan() && y.is_nan()) { Err(format!("{} changed from {:e} to {:e} under a blade shift of 4*{} / 4*{}", what, x, y, n, m)) } else { Ok(()) } };
    chk("dot magnitude", a.dot(&b).mag, a2.dot(&b2).mag)?;
    if a.dot(&b).angle.blade() != a2.dot(&b2).angle.blade() { return Err("dot sign changed under a blade shift".into()); }
    chk("wedge magnitude", a.wedge(&b).mag, a2.wedge(&b2).mag)?;
    chk("meet magnitude", a.meet(&b).mag, a2.meet(&b2).mag)?;
    chk("projection magnitude", a.project(&b).mag, a2.project(&b2).mag)?;
    chk("distance", a.distance_to(&b).mag, a2.distance_to(&b2).mag)?;
    chk("Angle::project", a.angle.project(b.angle), a2.angle.project(b2.angle))?;
    if a.is_orthogonal(&b) != a2.is_orthogonal(&b2) { return Err("orthogonality changed under a blade shift".into()); }
    chk("cos", Geonum::cos(a.angle).mag, Geonum::cos(a2.angle).mag)?;
    chk("sin", Geonum::sin(a.angle).mag, Geonum::sin(a2.angle).mag)?;
    let k = b.angle.blade();
    chk("project_to_dimension", a.project_to_dimension(k), a2.project_to_dimension(k + 4 * m))?;
    // result angles shift by the predictable amount, grade and remainder preserved
    let (w, w2) = (a.wedge(&b), a2.wedge(&b2));
    if w2.angle.blade() != w.angle.blade() + 4 * (n + m) || w2.angle.rem().to_bits() != w.angle.rem().to_bits() { return Err(format!("wedge angle {} -> {} under shifts 4*{}+4*{}", show_a(&w.angle), show_a(&w2.angle), n, m)); }
    let (p, p2) = (a.project(&b), a2.project(&b2));
    if b.mag >= 1e-10 && (p2.angle.blade() != p.angle.blade() + 4 * m || p2.angle.rem().to_bits() != p.angle.rem().to_bits()) { return Err("projection angle did not shift with the target".into()); }
    let (mt, mt2) = (a.meet(&b), a2.meet(&b2));
    if mt2.angle.blade() != mt.angle.blade() + 4 * (n + m) || mt2.angle.rem().to_bits() != mt.angle.rem().to_bits() { return Err("meet angle did not shift by the operands' shifts".into()); }
    // cone selection
    {
        use geonum::GeoCollection;
        let c1 = GeoCollection::from(vec![a]).select_cone(&b, 0.7).len();
        let c2 = GeoCollection::from(vec![a2]).select_cone(&b2, 0.7).len();
        if c1 != c2 { return Err("cone selection changed under a blade shift".into()); }
    }
    // Cartesian value of sums (shifts up to 2^19)
    if n <= (1 << 19) && m <= (1 << 19) && moderate(&a) && moderate(&b) {
        let (s, s2) = (a + b, a2 + b2);
        let (x, y) = cart(&s); let (x2, y2) = cart(&s2);
        let scale = a.mag.max(b.mag);
        let tol = sum_tol(scale, s.mag.max(s2.mag), a2.angle.blade() + b2.angle.blade() + 2) + sum_tol(scale, s.mag, a.angle.blade() + b.angle.blade() + 2);
        let err = ((x - x2).powi(2) + (y - y2).powi(2)).sqrt();
        if err > tol { return Err(format!("Cartesian value of the sum moved by {:e} under blade shifts (tol {:e})", err, tol)); }
    }
    Ok(n > 0 || m > 0)
}

pub fn clauses2() -> Vec<Clause> {
    vec![
        Clause { prop: "C05", name: "mul", sig: "GG", gen: g_gg, check: c05_mul },
        Clause { prop: "C05", name: "div", sig: "GG", gen: g_gg, check: c05_div },
        Clause { prop: "C05", name: "scale", sig: "GF", gen: g_gf, check: c05_scale },
        Clause { prop: "C05", name: "pow", sig: "GF", gen: g_pow, check: c05_pow },
        Clause { prop: "C05", name: "assoc", sig: "GGG", gen: g_ggg, check: c05_assoc },
        Clause { prop: "C06", name: "sum", sig: "GG", gen: g_c06, check: c06_sum },
        Clause { prop: "C06", name: "running", sig: "L", gen: g_seq, check: c06_running },
        Clause { prop: "C08", name: "shift", sig: "GGNN", gen: g_shift, check: c08_shift },
        Clause { prop: "C09", name: "dot", sig: "GG", gen: g_c09, check: c09_dot },
        Clause { prop: "C10", name: "wedge", sig: "GG", gen: g_gg, check: c10_wedge },
        Clause { prop: "C11", name: "project", sig: "GG", gen: g_gg, check: c11_project },
        Clause { prop: "C11", name: "angle", sig: "GA", gen: g_ga, check: c11_angle },
        Clause { prop: "C11", name: "dim", sig: "GN", gen: g_gn, check: c11_dim },
        Clause { prop: "C12", name: "rotate", sig: "GA", gen: g_ga, check: c12_rotate },
        Clause { prop: "C12", name: "reflect", sig: "GG", gen: g_gg, check: c12_reflect },
        Clause { prop: "C12", name: "scale_rotate", sig: "GFA", gen: g_sr, check: c12_scale_rotate },
        Clause { prop: "C13", name: "distance", sig: "GG", gen: g_c13d, check: c13_distance },
        Clause { prop: "C13", name: "triangle", sig: "GGG", gen: g_ggg, check: c13_triangle },
        Clause { prop: "C13", name: "invert", sig: "GGF", gen: g_inv, check: c13_invert },
        Clause { prop: "C14", name: "policy", sig: "GG", gen: g_c14, check: c14_policy },
        Clause { prop: "C15", name: "trig", sig: "A", gen: g_a, check: c15_trig },
        Clause { prop: "C15", name: "adj", sig: "G", gen: g_g, check: c15_adj },
    ]
}
