//! property oracles: each clause evaluates one sentence of a property *on the real implementation*
//! against an independent reference (integer blade arithmetic, Cartesian components), with the tolerance
//! the property states.  A clause is `(name, signature, generator, check)`; a case is an ordinary protocol
//! line `oracle.<ID>.<clause> args…`, so every failure is its own replay.
use crate::gen::*;
use crate::rng::*;
use crate::val::*;
use geonum::traits::*;
use geonum::{Angle, GeoCollection, Geonum};
use std::f64::consts::PI;

pub struct Clause {
    pub prop: &'static str,
    pub name: &'static str,
    pub sig: &'static str,
    pub gen: fn(&mut Rng) -> Vec<Val>,
    /// Ok(nontrivial?) or Err(what failed)
    pub check: fn(&[Val]) -> Result<bool, String>,
}

const TOL: f64 = 1e-10;
pub const MAXB: usize = 1 << 40;

fn same_angle(a: &Angle, b: &Angle) -> bool { a.blade() == b.blade() && a.rem().to_bits() == b.rem().to_bits() }
fn same_geonum(a: &Geonum, b: &Geonum) -> bool { a.mag.to_bits() == b.mag.to_bits() && same_angle(&a.angle, &b.angle) }
fn canon(a: &Angle) -> Result<(), String> {
    let r = a.rem();
    if r.is_finite() && r >= 0.0 && r < QP { Ok(()) } else { Err(format!("non-canonical remainder {:e} (blade {})", r, a.blade())) }
}
fn mag_ok(m: f64) -> Result<(), String> {
    if m.is_finite() && m >= 0.0 { Ok(()) } else { Err(format!("magnitude {:e} not finite non-negative", m)) }
}
fn show_a(a: &Angle) -> String { format!("[blade {} rem {:e}]", a.blade(), a.rem()) }
fn show_g(g: &Geonum) -> String { format!("[mag {:e} blade {} rem {:e}]", g.mag, g.angle.blade(), g.angle.rem()) }
fn aa(v: &[Val]) -> (Angle, Angle) { (v[0].a().unwrap(), v[1].a().unwrap()) }
fn gg(v: &[Val]) -> (Geonum, Geonum) { (v[0].g().unwrap(), v[1].g().unwrap()) }
/// total(s) − total(a) − total(b) evaluated without ever forming a large total:
/// (Δblade)·π/2 + (s.rem − a.rem − b.rem)
fn total_excess(s: &Angle, blades: i128, rems: f64) -> f64 {
    let db = s.blade() as i128 - blades;
    (db as f64) * QP + (s.rem() - rems)
}
/// direction of a geonum as (cos, sin) of its grade angle
fn dir(a: &Angle) -> (f64, f64) { let t = a.grade_angle(); (t.cos(), t.sin()) }
fn cart(g: &Geonum) -> (f64, f64) { let (c, s) = dir(&g.angle); (g.mag * c, g.mag * s) }
/// angular distance modulo 2π between two grade angles
fn ang_dist(t1: f64, t2: f64) -> f64 {
    let mut d = (t1 - t2) % (2.0 * PI);
    if d < 0.0 { d += 2.0 * PI; }
    d.min(2.0 * PI - d)
}

fn g_aa(r: &mut Rng) -> Vec<Val> { let (a, b) = gen_angle_pair(r); vec![Val::A(a), Val::A(b)] }
fn g_aaa(r: &mut Rng) -> Vec<Val> { let (a, b) = gen_angle_pair(r); let c = if r.chance(1, 2) { gen_angle_pair(r).1 } else { gen_angle(r) }; vec![Val::A(a), Val::A(b), Val::A(c)] }
fn g_a(r: &mut Rng) -> Vec<Val> { vec![Val::A(gen_angle(r))] }
fn g_gg(r: &mut Rng) -> Vec<Val> { let (a, b) = gen_geonum_pair(r); vec![Val::G(a), Val::G(b)] }
fn g_g(r: &mut Rng) -> Vec<Val> { vec![Val::G(gen_geonum(r))] }

// ------------------------------------------------------------------------------------------------ C03
fn c03_sum(v: &[Val]) -> Result<bool, String> {
    let (a, b) = aa(v);
    let s = a + b;
    canon(&s)?;
    let bl = a.blade() + b.blade();
    if s.blade() != bl && s.blade() != bl + 1 {
        return Err(format!("blade {} is not {} or {}+1", s.blade(), bl, bl));
    }
    let ex = total_excess(&s, bl as i128, a.rem() + b.rem());
    if ex.abs() > TOL + 1e-14 { return Err(format!("total off by {:e}", ex)); }
    if !same_angle(&s, &(b + a)) { return Err(format!("a+b {} differs from b+a {}", show_a(&s), show_a(&(b + a)))); }
    let all = [a + &b, &a + b, &a + &b, a * b, a * &b, &a * b, &a * &b, a.rotate(b)];
    for (i, x) in all.iter().enumerate() {
        if !same_angle(&s, x) { return Err(format!("spelling #{} gives {} instead of {}", i, show_a(x), show_a(&s))); }
    }
    Ok(a.rem() != 0.0 || b.rem() != 0.0)
}
fn c03_identity(v: &[Val]) -> Result<bool, String> {
    let a = v[0].a().unwrap();
    let z = Angle::new(0.0, 1.0);
    if z.blade() != 0 || z.rem() != 0.0 { return Err(format!("Angle::new(0,1) is {}", show_a(&z))); }
    let r = a + z; let l = z + a;
    if !same_angle(&r, &a) { return Err(format!("a+0 = {} ≠ a = {}", show_a(&r), show_a(&a))); }
    if !same_angle(&l, &a) { return Err(format!("0+a = {} ≠ a = {}", show_a(&l), show_a(&a))); }
    Ok(a.rem() != 0.0)
}
fn c03_assoc(v: &[Val]) -> Result<bool, String> {
    let (a, b, c) = (v[0].a().unwrap(), v[1].a().unwrap(), v[2].a().unwrap());
    let l = (a + b) + c; let r = a + (b + c);
    let d = (l.blade() as i128 - r.blade() as i128) as f64 * QP + (l.rem() - r.rem());
    if d.abs() > 2.0 * TOL + 1e-14 { return Err(format!("(a+b)+c {} vs a+(b+c) {} differ by {:e}", show_a(&l), show_a(&r), d)); }
    Ok(true)
}

pub fn clauses() -> Vec<Clause> {
    vec![
        Clause { prop: "C03", name: "sum", sig: "AA", gen: g_aa, check: c03_sum },
        Clause { prop: "C03", name: "identity", sig: "A", gen: g_a, check: c03_identity },
        Clause { prop: "C03", name: "assoc", sig: "AAA", gen: g_aaa, check: c03_assoc },
    ]
}

pub fn find(prop: &str, name: &str) -> Option<Clause> {
    clauses().into_iter().find(|c| c.prop == prop && c.name == name)
}

/// evaluate one `oracle.<ID>.<clause> args…` line
pub fn run_line(line: &str) -> String {
    let mut it = line.split_whitespace();
    let head = match it.next() { Some(h) => h, None => return "bad-op".into() };
    let parts: Vec<&str> = head.split('.').collect();
    if parts.len() != 3 || parts[0] != "oracle" { return "bad-op".into(); }
    let c = match find(parts[1], parts[2]) { Some(c) => c, None => return "bad-op".into() };
    let toks: Vec<&str> = it.collect();
    if toks.len() != c.sig.len() { return "bad-op".into(); }
    let mut args = Vec::new();
    for (k, t) in c.sig.chars().zip(toks.iter()) {
        match parse_arg(k, t) { Some(v) => args.push(v), None => return "bad-op".into() }
    }
    let chk = c.check;
    match std::panic::catch_unwind(move || chk(&args)) {
        Ok(Ok(nt)) => format!("ok {}", nt as u8),
        Ok(Err(e)) => format!("FAIL {}", e),
        Err(_) => "FAIL unexpected panic".into(),
    }
}
