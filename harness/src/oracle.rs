//! property oracles: each clause evaluates one sentence of a property *on the real implementation*
//! against an independent reference (integer blade arithmetic, Cartesian components), with the tolerance
//! the property states.  A clause is `(name, signature, generator, check)`; a case is an ordinary protocol
//! line `oracle.<ID>.<clause> args…`, so every failure is its own replay.
use crate::gen::*;
use crate::rng::*;
use crate::val::*;
use geonum::{Angle, Geonum};
use std::f64::consts::PI;

pub struct Clause {
    pub prop: &'static str,
    pub name: &'static str,
    pub sig: &'static str,
    pub gen: fn(&mut Rng) -> Vec<Val>,
    /// Ok(nontrivial?) or Err(what failed)
    pub check: fn(&[Val]) -> Result<bool, String>,
}

const TOL: f64 = 1e-10;
pub const MAXB: usize = 1 << 40;

fn same_angle(a: &Angle, b: &Angle) -> bool { a.blade() == b.blade() && a.rem().to_bits() == b.rem().to_bits() }
fn same_geonum(a: &Geonum, b: &Geonum) -> bool { a.mag.to_bits() == b.mag.to_bits() && same_angle(&a.angle, &b.angle) }
fn canon(a: &Angle) -> Result<(), String> {
    let r = a.rem();
    if r.is_finite() && r >= 0.0 && r < QP { Ok(()) } else { Err(format!("non-canonical remainder {:e} (blade {})", r, a.blade())) }
}
fn mag_ok(m: f64) -> Result<(), String> {
    if m.is_finite() && m >= 0.0 { Ok(()) } else { Err(format!("magnitude {:e} not finite non-negative", m)) }
}
fn show_a(a: &Angle) -> String { format!("[blade {} rem {:e}]", a.blade(), a.rem()) }
fn show_g(g: &Geonum) -> String { format!("[mag {:e} blade {} rem {:e}]", g.mag, g.angle.blade(), g.angle.rem()) }
fn aa(v: &[Val]) -> (Angle, Angle) { (v[0].a().unwrap(), v[1].a().unwrap()) }
fn gg(v: &[Val]) -> (Geonum, Geonum) { (v[0].g().unwrap(), v[1].g().unwrap()) }
/// total(s) − total(a) − total(b) evaluated without ever forming a large total:
/// (Δblade)·π/2 + (s.rem − a.rem − b.rem)
fn total_excess(s: &Angle, blades: i128, rems: f64) -> f64 {
    let db = s.blade() as i128 - blades;
    (db as f64) * QP + (s.rem() - rems)
}
/// direction of a geonum as (cos, sin) of its grade angle
fn dir(a: &Angle) -> (f64, f64) { let t = a.grade_angle(); (t.cos(), t.sin()) }
fn cart(g: &Geonum) -> (f64, f64) { let (c, s) = dir(&g.angle); (g.mag * c, g.mag * s) }
/// angular distance modulo 2π between two grade angles
fn ang_dist(t1: f64, t2: f64) -> f64 {
    let mut d = (t1 - t2) % (2.0 * PI);
    if d < 0.0 { d += 2.0 * PI; }
    d.min(2.0 * PI - d)
}

fn g_aa(r: &mut Rng) -> Vec<Val> { let (a, b) = gen_angle_pair(r); vec![Val::A(a), Val::A(b)] }
fn g_aaa(r: &mut Rng) -> Vec<Val> { let (a, b) = gen_angle_pair(r); let c = if r.chance(1, 2) { gen_angle_pair(r).1 } else { gen_angle(r) }; vec![Val::A(a), Val::A(b), Val::A(c)] }
fn g_a(r: &mut Rng) -> Vec<Val> { vec![Val::A(gen_angle(r))] }
fn g_gg(r: &mut Rng) -> Vec<Val> { let (a, b) = gen_geonum_pair(r); vec![Val::G(a), Val::G(b)] }
fn g_g(r: &mut Rng) -> Vec<Val> { vec![Val::G(gen_geonum(r))] }

// ------------------------------------------------------------------------------------------------ C03
fn c03_sum(v: &[Val]) -> Result<bool, String> {
    let (a, b) = aa(v);
    let s = a + b;
    canon(&s)?;
    let bl = a.blade() + b.blade();
    if s.blade() != bl && s.blade() != bl + 1 {
        return Err(format!("blade {} is not {} or {}+1", s.blade(), bl, bl));
    }
    let ex = total_excess(&s, bl as i128, a.rem() + b.rem());
    if ex.abs() > TOL + 1e-14 { return Err(format!("total off by {:e}", ex)); }
    if !same_angle(&s, &(b + a)) { return Err(format!("a+b {} differs from b+a {}", show_a(&s), show_a(&(b + a)))); }
    let all = [a + &b, &a + b, &a + &b, a * b, a * &b, &a * b, &a * &b, a.rotate(b)];
    for (i, x) in all.iter().enumerate() {
        if !same_angle(&s, x) { return Err(format!("spelling #{} gives {} instead of {}", i, show_a(x), show_a(&s))); }
    }
    // both borrows pointing at one object (`&a + &a`): same result as with a copy
    { let r = &a; let c = a;
      if !same_angle(&(r + r), &(a + c)) || !same_angle(&(r * r), &(a + c)) { return Err(format!("&a + &a (one object borrowed twice) differs from a + copy(a) for a = {}", show_a(&a))); }
      if !same_angle(&(r - r), &(a - c)) || !same_angle(&(r / r), &(a - c)) { return Err(format!("&a - &a (one object borrowed twice) differs from a - copy(a) for a = {}", show_a(&a))); } }
    Ok(a.rem() != 0.0 || b.rem() != 0.0)
}
fn c03_identity(v: &[Val]) -> Result<bool, String> {
    let a = v[0].a().unwrap();
    let z = Angle::new(0.0, 1.0);
    if z.blade() != 0 || z.rem() != 0.0 { return Err(format!("Angle::new(0,1) is {}", show_a(&z))); }
    let r = a + z; let l = z + a;
    if !same_angle(&r, &a) { return Err(format!("a+0 = {} ≠ a = {}", show_a(&r), show_a(&a))); }
    if !same_angle(&l, &a) { return Err(format!("0+a = {} ≠ a = {}", show_a(&l), show_a(&a))); }
    Ok(a.rem() != 0.0)
}
fn c03_assoc(v: &[Val]) -> Result<bool, String> {
    let (a, b, c) = (v[0].a().unwrap(), v[1].a().unwrap(), v[2].a().unwrap());
    let l = (a + b) + c; let r = a + (b + c);
    let d = (l.blade() as i128 - r.blade() as i128) as f64 * QP + (l.rem() - r.rem());
    if d.abs() > 2.0 * TOL + 1e-14 { return Err(format!("(a+b)+c {} vs a+(b+c) {} differ by {:e}", show_a(&l), show_a(&r), d)); }
    Ok(true)
}


// ------------------------------------------------------------------------------------------------ C04
/// (Δblade mod 4, folded to {-1,0,1,2})·π/2 + Δrem — the residue of a total difference modulo 2π
fn residue(dblade: i128, drem: f64) -> f64 {
    let m = dblade.rem_euclid(4);
    let m = if m == 3 { -1 } else { m };
    (m as f64) * QP + drem
}
fn c04_sub(v: &[Val]) -> Result<bool, String> {
    let (a, b) = aa(v);
    let d = a - b;
    canon(&d)?;
    let big_d = a.blade() as i128 - b.blade() as i128;
    let dr = a.rem() - b.rem();
    let nonneg = big_d > 0 || (big_d == 0 && dr >= 0.0);
    let tol = TOL + 1e-14;
    if nonneg || (big_d == 0 && dr.abs() < 1e-15) {
        // no spurious turns: total(d) = total(a) - total(b)
        if !(big_d == 0 && dr < 0.0) {
            let ex = (d.blade() as i128 - big_d) as f64 * QP + (d.rem() - dr);
            if ex.abs() > tol { return Err(format!("T(a-b) off by {:e} for T(b) <= T(a): got {}", ex, show_a(&d))); }
        }
    } else {
        let ex = residue(d.blade() as i128 - big_d, d.rem() - dr);
        if ex.abs() > tol { return Err(format!("a-b {} not congruent to T(a)-T(b) mod 2π (off {:e})", show_a(&d), ex)); }
        if d.blade() > 4 || (d.blade() == 4 && d.rem() != 0.0) {
            return Err(format!("a-b {} is more than one full forward turn for T(b) > T(a)", show_a(&d)));
        }
    }
    let all = [a - &b, &a - b, &a - &b, a / b, a / &b, &a / b, &a / &b];
    for (i, x) in all.iter().enumerate() {
        if !same_angle(&d, x) { return Err(format!("spelling #{} gives {} instead of {}", i, show_a(x), show_a(&d))); }
    }
    Ok(big_d != 0 || dr != 0.0)
}
fn c04_roundtrip(v: &[Val]) -> Result<bool, String> {
    let (a, b) = aa(v);
    let r = (a + b) - b;
    let ex = (r.blade() as i128 - a.blade() as i128) as f64 * QP + (r.rem() - a.rem());
    if ex.abs() > 2.0 * TOL + 1e-14 { return Err(format!("(a+b)-b = {} differs from a = {} by {:e}", show_a(&r), show_a(&a), ex)); }
    let z = a - a;
    if z.blade() != 0 || z.rem() != 0.0 { return Err(format!("a-a = {}", show_a(&z))); }
    Ok(true)
}
fn g_divf(r: &mut Rng) -> Vec<Val> { gen_args("angle.divf.v", "AF", r) }
fn c04_divf(v: &[Val]) -> Result<bool, String> {
    let a = v[0].a().unwrap(); let k = v[1].f().unwrap();
    let q = a / k;
    canon(&q)?;
    let q2 = &a / k;
    if !same_angle(&q, &q2) { return Err("Angle / f64 and &Angle / f64 differ".into()); }
    // totals in double-double-ish: blade*QP split exactly enough for blades <= 2^21
    let t = a.blade() as f64 * QP + a.rem();
    let e = t / k;
    let r = q.blade() as f64 * QP + q.rem();
    let scale = t.abs().max(e.abs()).max(1.0);
    let tol = TOL + 32.0 * scale * f64::EPSILON;
    if (r - e).abs() > tol { return Err(format!("T(a/k)={:e} but T(a)/k={:e} (diff {:e}, tol {:e})", r, e, r - e, tol)); }
    Ok(a.blade() != 0 || a.rem() != 0.0)
}

// ------------------------------------------------------------------------------------------------ C07
fn step_check(what: &str, g: &Geonum, r: &Geonum, delta: usize) -> Result<(), String> {
    if r.angle.blade() != g.angle.blade() + delta { return Err(format!("{} changed blade {} -> {} (expected +{})", what, g.angle.blade(), r.angle.blade(), delta)); }
    if r.angle.rem().to_bits() != g.angle.rem().to_bits() { return Err(format!("{} changed the remainder {:e} -> {:e}", what, g.angle.rem(), r.angle.rem())); }
    if r.mag.to_bits() != g.mag.to_bits() { return Err(format!("{} changed the magnitude", what)); }
    Ok(())
}
fn c07_steps(v: &[Val]) -> Result<bool, String> {
    let g = v[0].g().unwrap();
    step_check("dual", &g, &g.dual(), 2)?;
    step_check("undual", &g, &g.undual(), 2)?;
    step_check("negate", &g, &g.negate(), 2)?;
    step_check("differentiate", &g, &g.differentiate(), 1)?;
    step_check("increment_blade", &g, &g.increment_blade(), 1)?;
    step_check("integrate", &g, &g.integrate(), 3)?;
    step_check("decrement_blade", &g, &g.decrement_blade(), 3)?;
    let a = g.angle;
    for (what, r) in [("Angle::dual", a.dual()), ("Angle::undual", a.undual()), ("Angle::negate", a.negate()), ("Angle::conjugate", a.conjugate())] {
        step_check(what, &g, &Geonum::new_with_angle(g.mag, r), 2)?;
    }
    let b = g.base_angle();
    if b.angle.blade() != a.blade() % 4 || b.angle.rem().to_bits() != a.rem().to_bits() || b.mag.to_bits() != g.mag.to_bits() {
        return Err(format!("base_angle gave {}", show_g(&b)));
    }
    if a.base_angle().blade() != a.blade() % 4 || a.base_angle().rem().to_bits() != a.rem().to_bits() { return Err("Angle::base_angle wrong".into()); }
    if a.grade() != a.blade() % 4 { return Err(format!("grade {} for blade {}", a.grade(), a.blade())); }
    let preds = [a.is_scalar(), a.is_vector(), a.is_bivector(), a.is_trivector()];
    for (i, p) in preds.iter().enumerate() { if *p != (a.blade() % 4 == i) { return Err(format!("grade predicate {} wrong for blade {}", i, a.blade())); } }
    let ga = a.grade_angle();
    let expect = (a.blade() % 4) as f64 * QP + a.rem();
    if !(ga >= 0.0 && ga < 2.0 * PI) || (ga - expect).abs() > 4e-15 { return Err(format!("grade_angle {:e} for {}", ga, show_a(&a))); }
    // four derivatives / two duals / derivative-then-integral
    let d4 = g.differentiate().differentiate().differentiate().differentiate();
    step_check("4x differentiate", &g, &d4, 4)?;
    step_check("2x dual", &g, &g.dual().dual(), 4)?;
    step_check("differentiate+integrate", &g, &g.differentiate().integrate(), 4)?;
    Ok(true)
}
fn c07_copy(v: &[Val]) -> Result<bool, String> {
    let (g, o) = gg(v);
    let r = g.copy_blade(&o);
    if r.mag.to_bits() != g.mag.to_bits() || r.angle.rem().to_bits() != g.angle.rem().to_bits() { return Err("copy_blade touched magnitude or remainder".into()); }
    if r.angle.grade() != o.angle.grade() { return Err(format!("copy_blade grade {} but other's grade {}", r.angle.grade(), o.angle.grade())); }
    if o.angle.blade() >= g.angle.blade() && r.angle.blade() != o.angle.blade() { return Err(format!("copy_blade blade {} but other's blade {} (not smaller)", r.angle.blade(), o.angle.blade())); }
    if r.angle.blade() < g.angle.blade() { return Err("copy_blade decreased the blade count".into()); }
    Ok(g.angle.blade() != o.angle.blade())
}
fn c07_opposite(v: &[Val]) -> Result<bool, String> {
    let (a, b) = aa(v);
    let d = (a.blade() as i128 - b.blade() as i128).abs();
    let got = a.is_opposite(&b);
    let dr = (a.rem() - b.rem()).abs();
    if d == 2 && a.rem().to_bits() == b.rem().to_bits() && !got { return Err("blade counts differ by two with equal remainders but is_opposite is false".into()); }
    if d != 2 && got { return Err(format!("is_opposite true with blade difference {}", d)); }
    if dr > 2e-15 && got { return Err(format!("is_opposite true with remainders {:e} apart", dr)); }
    if got != b.is_opposite(&a) { return Err("is_opposite not symmetric".into()); }
    Ok(d == 2)
}
fn g_opp(r: &mut Rng) -> Vec<Val> {
    let (a, b) = gen_angle_pair(r);
    if r.chance(1, 2) {
        let d = *r.pick(&[2usize, 2, 2, 6, 10, (1 << 32) + 2, (1 << 32) - 2, (1usize << 31) + 2, 1 << 32, 1 << 31, (1usize << 33) + 2, 4294967298, 0, 1, 3]);
        let b2 = mk_angle(a.blade() + d, if r.chance(3, 4) { a.rem() } else { b.rem() });
        if r.chance(1, 2) { vec![Val::A(a), Val::A(b2)] } else { vec![Val::A(b2), Val::A(a)] }
    } else { vec![Val::A(a), Val::A(b)] }
}
/// history: start state + list; each list member encodes one step: magnitude = op code, angle = operand
fn g_hist(r: &mut Rng) -> Vec<Val> {
    let mut g = gen_geonum(r);
    if g.mag == 0.0 { g = Geonum::new_with_angle(1.0, g.angle); }
    let n = match r.below(4) { 0 => r.range(1, 6), 1 | 2 => r.range(6, 40), _ => r.range(40, 300) } as usize;
    let l: Vec<Geonum> = (0..n).map(|_| {
        let code = if r.chance(2, 3) { r.below(7) } else { 7 + r.below(4) } as f64;
        let ang = if r.chance(1, 3) { gen_angle_pair(r).1 } else { mk_angle(r.below(64) as usize, gen_rem(r)) };
        Geonum::new_with_angle(code, ang)
    }).collect();
    vec![Val::G(g), Val::L(l)]
}
fn c07_history(v: &[Val]) -> Result<bool, String> {
    let g0 = v[0].g().unwrap(); let l = v[1].l().unwrap();
    let mut g = g0;
    let mut lo: i128 = g.angle.blade() as i128; // predicted blade count (lower bound when carries are possible)
    let mut hi: i128 = lo;
    let mut exact = true;
    for (i, st) in l.iter().enumerate() {
        let x = st.angle;
        let before = g;
        let code = st.mag as i64;
        g = match code {
            0 => g.dual(), 1 => g.undual(), 2 => g.negate(), 3 => g.differentiate(), 4 => g.integrate(),
            5 => g.increment_blade(), 6 => g.decrement_blade(),
            // the running value is held by value or by reference, step by step: every ownership spelling takes part in histories
            7 => match i % 5 { 0 => g.rotate(x), 1 => Geonum::new_with_angle(g.mag, g.angle + x), 2 => Geonum::new_with_angle(g.mag, &g.angle + x),
                               3 => Geonum::new_with_angle(g.mag, g.angle + &x), _ => Geonum::new_with_angle(g.mag, &g.angle * &x) },
            8 => Geonum::new_with_angle(g.mag, match i % 6 { 0 => g.angle - x, 1 => &g.angle - x, 2 => g.angle - &x, 3 => &g.angle - &x, 4 => &g.angle / x, _ => g.angle / &x }),
            9 => { let o = Geonum::new_with_angle(1.0, x); match i % 4 { 0 => g * o, 1 => &g * o, 2 => g * &o, _ => &g * &o } }
            _ => { let o = Geonum::new_with_angle(1.0, x); match i % 4 { 0 => g / o, 1 => &g / o, 2 => g / &o, _ => &g / &o } }
        };
        canon(&g.angle).map_err(|e| format!("step {}: {}", i, e))?;
        let d: i128 = match code { 0 | 1 | 2 => 2, 3 | 5 => 1, 4 | 6 => 3, _ => -1 };
        let nb = g.angle.blade() as i128; let ob = before.angle.blade() as i128;
        if d >= 0 {
            if nb != ob + d { return Err(format!("step {} (op {}) blade {} -> {}, rule says +{}", i, code, ob, nb, d)); }
            if g.angle.rem().to_bits() != before.angle.rem().to_bits() { return Err(format!("step {} (op {}) changed the remainder", i, code)); }
            lo += d; hi += d;
        } else if code == 7 || code == 9 {
            // addition rule: blades add, one carry iff the remainders reach a quarter turn
            let rs = before.angle.rem() + x.rem();
            let carry = nb - ob - x.blade() as i128;
            let want = if rs < QP - 2e-10 { 0 } else if rs > QP + 2e-10 { 1 } else { carry.clamp(0, 1) };
            if carry != want { return Err(format!("step {} (add) blade {} + {} -> {} with remainder sum {:e}", i, ob, x.blade(), nb, rs)); }
            lo += x.blade() as i128 + carry; hi = lo;
        } else if code == 8 {
            // subtraction rule: borrow iff the remainder difference is negative; wrap up by whole turns if negative
            let rd = before.angle.rem() - x.rem();
            let borrow: i128 = if rd.abs() < 1e-15 - 1e-17 { 0 } else if rd < -1.1e-15 { 1 } else if rd > 0.0 { 0 } else { -1 };
            let base = ob - x.blade() as i128;
            let ok = |b: i128| -> bool { let t = base - b; let w = if t < 0 { t + ((-t + 3) / 4) * 4 } else { t }; nb == w || (b == 1 && nb == w + 1 && g.angle.rem() == 0.0) };
            let fine = if borrow >= 0 { ok(borrow) } else { ok(0) || ok(1) };
            if !fine { return Err(format!("step {} (sub) blade {} - {} -> {} with remainder difference {:e}", i, ob, x.blade(), nb, rd)); }
            lo = nb; hi = nb; exact = false;
        } else {
            // division by [1, x]: multiply by inverse = add (x + π): blade + x.blade + 2 (+carry)
            let rs = before.angle.rem() + x.rem();
            let carry = nb - ob - x.blade() as i128 - 2;
            let want = if rs < QP - 2e-10 { 0 } else if rs > QP + 2e-10 { 1 } else { carry.clamp(0, 1) };
            if carry != want { return Err(format!("step {} (div) blade {} (+{}+2) -> {} with remainder sum {:e}", i, ob, x.blade(), nb, rs)); }
            lo += x.blade() as i128 + 2 + carry; hi = lo;
        }
        if g.mag.to_bits() != before.mag.to_bits() && !(code >= 9) { return Err(format!("step {} changed the magnitude", i)); }
        if nb > (1i128 << 45) { break; }
    }
    let fb = g.angle.blade() as i128;
    if fb < lo || fb > hi { return Err(format!("accumulated blade {} but the per-operation rules predict {}", fb, lo)); }
    let _ = exact;
    Ok(l.len() > 1)
}

pub fn clauses() -> Vec<Clause> {
    let mut v = vec![
        Clause { prop: "C03", name: "sum", sig: "AA", gen: g_aa, check: c03_sum },
        Clause { prop: "C03", name: "identity", sig: "A", gen: g_a, check: c03_identity },
        Clause { prop: "C03", name: "assoc", sig: "AAA", gen: g_aaa, check: c03_assoc },
        Clause { prop: "C04", name: "sub", sig: "AA", gen: g_aa, check: c04_sub },
        Clause { prop: "C04", name: "roundtrip", sig: "AA", gen: g_aa, check: c04_roundtrip },
        Clause { prop: "C04", name: "divf", sig: "AF", gen: g_divf, check: c04_divf },
        Clause { prop: "C07", name: "steps", sig: "G", gen: g_g, check: c07_steps },
        Clause { prop: "C07", name: "copy", sig: "GG", gen: g_gg, check: c07_copy },
        Clause { prop: "C07", name: "opposite", sig: "AA", gen: g_opp, check: c07_opposite },
        Clause { prop: "C07", name: "history", sig: "GL", gen: g_hist, check: c07_history },
    ];
    v.extend(crate::oracle2::clauses2());
    v.extend(crate::oracle3::clauses3());
    v
}

pub fn find(prop: &str, name: &str) -> Option<Clause> {
    clauses().into_iter().find(|c| c.prop == prop && c.name == name)
}

/// evaluate one `oracle.<ID>.<clause> args…` line
pub fn run_line(line: &str) -> String {
    let mut it = line.split_whitespace();
    let head = match it.next() { Some(h) => h, None => return "bad-op".into() };
    let parts: Vec<&str> = head.split('.').collect();
    if parts.len() != 3 || parts[0] != "oracle" { return "bad-op".into(); }
    let c = match find(parts[1], parts[2]) { Some(c) => c, None => return "bad-op".into() };
    let toks: Vec<&str> = it.collect();
    if toks.len() != c.sig.len() { return "bad-op".into(); }
    let mut args = Vec::new();
    for (k, t) in c.sig.chars().zip(toks.iter()) {
        match parse_arg(k, t) { Some(v) => args.push(v), None => return "bad-op".into() }
    }
    let chk = c.check;
    match std::panic::catch_unwind(move || chk(&args)) {
        Ok(Ok(nt)) => format!("ok {}", nt as u8),
        Ok(Err(e)) => format!("FAIL {}", e),
        Err(_) => "FAIL unexpected panic".into(),
    }
}
