//! exhaustive grids for the thorough tier (and small versions for the quick tier)
use crate::gen::*;
use crate::rng::ulps;
use crate::val::*;
use geonum::Geonum;

pub fn grid(prop: &str, depth: usize) -> Vec<String> {
    match prop {
        "C04" => grid_c04(depth),
        "C07" => grid_c07(depth),
        _ => vec![],
    }
}

/// every blade difference in [-2^12, 2^12] (depth >= 4) or [-2^8, 2^8] (smaller depth) x 9 remainder-gap classes
fn grid_c04(depth: usize) -> Vec<String> {
    let span: i64 = if depth >= 4 { 1 << 12 } else { 1 << 8 };
    let r0 = 0.7342;
    let classes: Vec<(f64, f64)> = vec![
        (0.0, 0.0), (r0, r0), (r0, ulps(r0, 1)), (ulps(r0, 1), r0), (r0, r0 + 5e-16), (r0 + 1e-15, r0), (r0, r0 + 1e-12),
        (0.3, 1.1), (1.1, 0.3), (0.0, QP - 1.5e-10), (QP - 1.5e-10, 0.0), (1e-15, 0.0), (0.0, 1e-15),
    ];
    let mut out = Vec::new();
    for d in -span..=span {
        for base in [0i64, 5] {
            let (ab, bb) = if d >= 0 { (base + d, base) } else { (base, base - d) };
            for (ra, rb) in &classes {
                let a = mk_angle(ab as usize, *ra);
                let b = mk_angle(bb as usize, *rb);
                out.push(line("angle.sub.vv", &[Val::A(a), Val::A(b)]));
                out.push(line("oracle.C04.sub", &[Val::A(a), Val::A(b)]));
                if base == 0 { out.push(line("oracle.C04.roundtrip", &[Val::A(a), Val::A(b)])); }
            }
        }
    }
    out
}

/// all sequences of exactly `depth` steps over the 11-code alphabet of `oracle.C07.history` (codes 0..=10; codes 7..=10 use
/// one of three fixed operands), from 24 start states whose remainders are exact twelfths of a quarter turn
fn grid_c07(depth: usize) -> Vec<String> {
    let operands = [mk_angle(1, QP / 3.0), mk_angle(2, 0.0), mk_angle(7, 5.0 * QP / 6.0)];
    // alphabet: 7 fixed-step ops + add/sub/mul/div with operand 0 + add with operands 1, 2 + sub with operand 2 = 14 letters
    let mut alphabet: Vec<Geonum> = (0..7).map(|c| Geonum::new_with_angle(c as f64, operands[1])).collect();
    for c in 7..=10 { alphabet.push(Geonum::new_with_angle(c as f64, operands[0])); }
    alphabet.push(Geonum::new_with_angle(7.0, operands[1]));
    alphabet.push(Geonum::new_with_angle(7.0, operands[2]));
    alphabet.push(Geonum::new_with_angle(8.0, operands[2]));
    let mut starts = Vec::new();
    for k in 0..12 { for b in [0usize, 1003] { starts.push(Geonum::new_with_angle(1.5, mk_angle(b, if k == 0 { 0.0 } else { k as f64 * QP / 12.0 - if k == 11 { 0.0 } else { 0.0 } }))); } }
    let starts: Vec<Geonum> = starts.into_iter().filter(|g| canonical_rem(g.angle.rem())).collect();
    let n = alphabet.len();
    let total = n.pow(depth as u32);
    let mut out = Vec::with_capacity(total * starts.len());
    for s in &starts {
        for idx in 0..total {
            let mut k = idx;
            let mut seq = Vec::with_capacity(depth);
            for _ in 0..depth { seq.push(alphabet[k % n]); k /= n; }
            out.push(line("oracle.C07.history", &[Val::G(*s), Val::L(seq)]));
        }
    }
    out
}
