//! operation histories: every step is emitted as an ordinary single-op line whose inputs are the
//! implementation's observed state, so model and code are compared after every step and a history of
//! any length agrees iff each step does.
use crate::gen::*;
use crate::rng::*;
use crate::val::*;
use geonum::Geonum;

const UNARY_G: &[&str] = &["geonum.dual", "geonum.undual", "geonum.negate", "geonum.differentiate", "geonum.integrate",
    "geonum.increment_blade", "geonum.decrement_blade", "geonum.base_angle"];
const BINARY_G: &[&str] = &["geonum.mul.vv", "geonum.div.vv", "geonum.add.vv", "geonum.sub.vv", "geonum.copy_blade", "geonum.reflect"];
const BINARY_GA: &[&str] = &["geonum.rotate"];

fn parse_g(out: &str) -> Option<Geonum> { out.strip_prefix("G ").and_then(pg) }

pub fn gen_history(r: &mut Rng, allowed: &[&str]) -> Vec<String> {
    let ok = |n: &str| allowed.contains(&n);
    let mut lines = Vec::new();
    let mut state = gen_geonum(r);
    if state.mag == 0.0 { state = Geonum::new_with_angle(1.0, state.angle); }
    let len = match r.below(4) { 0 => r.range(2, 10), 1 | 2 => r.range(10, 60), _ => r.range(60, 400) } as usize;
    for _ in 0..len {
        let (name, args): (&str, Vec<Val>) = match r.below(10) {
            0..=5 => { let n = *r.pick(UNARY_G); (n, vec![Val::G(state)]) }
            6..=8 => { let n = *r.pick(BINARY_G); let o = if r.chance(1, 3) { gen_geonum_pair(r).1 } else { gen_pos_geonum(r) }; (n, vec![Val::G(state), Val::G(o)]) }
            _ => { let n = *r.pick(BINARY_GA); (n, vec![Val::G(state), Val::A(gen_angle(r))]) }
        };
        if !ok(name) { continue; }
        let l = line(name, &args);
        let out = crate::run_line(&l);
        lines.push(l);
        match parse_g(&out) {
            Some(g) if g.mag.is_finite() && g.angle.blade() < (1usize << 41) && g.mag <= 1e100 && (g.mag == 0.0 || g.mag >= 1e-100) => state = g,
            _ => { state = gen_geonum(r); }
        }
    }
    lines
}
