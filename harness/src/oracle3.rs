//! property oracles C01, C02, C16, C17, C18, C19
use crate::gen::*;
use crate::oracle::*;
use crate::oracle2::{same_angle, same_geonum, show_a, show_g, sum_tol_pub};
use crate::rng::*;
use crate::val::*;
use geonum::traits::*;
use geonum::{Angle, GeoCollection, Geonum};
use std::cmp::Ordering;
use std::f64::consts::PI;

const TOL: f64 = 1e-10;
const EPS: f64 = f64::EPSILON;

fn canon(what: &str, a: &Angle) -> Result<(), String> {
    let r = a.rem();
    if r.is_finite() && r >= 0.0 && r < QP { Ok(()) } else { Err(format!("{}: non-canonical remainder {:e} (blade {})", what, r, a.blade())) }
}
fn mag_ok(what: &str, m: f64) -> Result<(), String> {
    if m.is_finite() && m >= 0.0 { Ok(()) } else { Err(format!("{}: magnitude {:e} is not finite and non-negative", what, m)) }
}
fn gok(what: &str, g: &Geonum) -> Result<(), String> { mag_ok(what, g.mag)?; canon(what, &g.angle) }
fn ga(a: &Angle) -> f64 { (a.blade() % 4) as f64 * QP + a.rem() }
fn cart(g: &Geonum) -> (f64, f64) { let t = ga(&g.angle); (g.mag * t.cos(), g.mag * t.sin()) }
fn ang_dist(t1: f64, t2: f64) -> f64 {
    let mut d = (t1 - t2) % (2.0 * PI);
    if d < 0.0 { d += 2.0 * PI; }
    d.min(2.0 * PI - d)
}
fn catches<T, Fn_: FnOnce() -> T + std::panic::UnwindSafe>(f: Fn_) -> Option<T> { std::panic::catch_unwind(f).ok() }
fn moderate(g: &Geonum) -> bool { g.mag == 0.0 || (g.mag >= 1e-30 && g.mag <= 1e30) }
fn pos30(r: &mut Rng) -> f64 { if r.chance(1, 8) { 0.0 } else { log_uniform(r, -30.0, 30.0) } }

// ------------------------------------------------------------------------------------------------ C01
/// magnitudes whose products of two stay inside [1e-100, 1e100] (the property quantifies "for as long as they stay inside these bounds")
fn g_c01(r: &mut Rng) -> Vec<Val> {
    let (a, b) = gen_geonum_pair(r);
    let f = |g: Geonum, r: &mut Rng| if moderate(&g) { g } else { Geonum::new_with_angle(pos30(r), g.angle) };
    vec![Val::G(f(a, r)), Val::G(f(b, r)), Val::F(gen_factor(r)), Val::A(gen_angle(r))]
}
fn c01_total(v: &[Val]) -> Result<bool, String> {
    let a = v[0].g().unwrap(); let b = v[1].g().unwrap(); let f = v[2].f().unwrap(); let x = v[3].a().unwrap();
    // every core operation: must not panic (except the three documented cases), canonical angle, finite non-negative magnitude
    macro_rules! chk { ($name:expr, $e:expr) => {{ match catches(move || $e) { Some(g) => gok($name, &g)?, None => return Err(format!("{} panicked on finite in-domain inputs", $name)) } }}; }
    chk!("mul", a * b); chk!("add", a + b); chk!("sub", a - b); chk!("dot", a.dot(&b)); chk!("wedge", a.wedge(&b));
    chk!("geo", a.geo(&b)); chk!("meet", a.meet(&b)); chk!("project", a.project(&b)); chk!("reject", a.reject(&b));
    chk!("reflect", a.reflect(&b)); chk!("rotate", a.rotate(x)); chk!("negate", a.negate()); chk!("dual", a.dual()); chk!("undual", a.undual());
    chk!("differentiate", a.differentiate()); chk!("integrate", a.integrate()); chk!("increment_blade", a.increment_blade());
    chk!("decrement_blade", a.decrement_blade()); chk!("copy_blade", a.copy_blade(&b)); chk!("base_angle", a.base_angle());
    chk!("scale", a.scale(f)); chk!("scale_rotate", a.scale_rotate(f, x)); chk!("distance_to", a.distance_to(&b));
    chk!("adj", a.adj()); chk!("opp", a.opp()); chk!("cos", Geonum::cos(x)); chk!("sin", Geonum::sin(x)); chk!("project_to_angle", a.project_to_angle(x));
    chk!("Angle*Geonum", x * a); chk!("Angle+Geonum", x + a); chk!("pow2", a.pow(2.0)); chk!("scalar", Geonum::scalar(f));
    if b.mag >= 1e-30 { chk!("tan", Geonum::tan(x)); }
    for (name, r) in [("inv", catches(move || b.inv())), ("div", catches(move || a / b)), ("a / &b", catches(move || a / &b)), ("&a / b", catches(move || &a / b)), ("&a / &b", catches(move || &a / &b)), ("div()", catches(move || a.div(&b))), ("normalize", catches(move || b.normalize()))] {
        match r { Some(g) => { if b.mag == 0.0 { return Err(format!("{} did not panic on a zero magnitude", name)); } gok(name, &g)?; }
                  None => if b.mag != 0.0 { return Err(format!("{} panicked on a non-zero magnitude {:e}", name, b.mag)); } }
    }
    let off = a - b;
    match catches(move || a.invert_circle(&b, 1.5)) {
        Some(g) => { if off.mag == 0.0 { return Err("invert_circle did not panic at the circle centre".into()); }
                     if off.mag >= 1e-30 * a.mag.max(b.mag).max(1.0) { gok("invert_circle", &g)?; } }
        None => if off.mag != 0.0 { return Err("invert_circle panicked away from the circle centre".into()); }
    }
    for (name, ang) in [("Angle+", catches(move || a.angle + x)), ("Angle-", catches(move || a.angle - x)), ("Angle*", catches(move || a.angle * x)), ("Angle/", catches(move || a.angle / x)),
                        ("Angle::dual", catches(move || x.dual())), ("Angle::conjugate", catches(move || x.conjugate())), ("Angle::negate", catches(move || x.negate())), ("Angle::base_angle", catches(move || x.base_angle()))] {
        match ang { Some(t) => canon(name, &t)?, None => return Err(format!("{} panicked", name)) }
    }
    for (name, q) in [("is_opposite", catches(move || a.angle.is_opposite(&x)).map(|_| ())), ("cmp", catches(move || a.cmp(&b)).map(|_| ())), ("eq", catches(move || a == b).map(|_| ())),
                      ("is_orthogonal", catches(move || a.is_orthogonal(&b)).map(|_| ())), ("project_to_dimension", catches(move || a.project_to_dimension(7)).map(|_| ())), ("mag_diff", catches(move || a.mag_diff(&b)).map(|_| ()))] {
        if q.is_none() { return Err(format!("{} panicked", name)); }
    }
    let pd = a.project_to_dimension(b.angle.blade());
    if !pd.is_finite() { return Err("project_to_dimension is not finite".into()); }
    let gr = x.grade_angle();
    if !(gr >= 0.0 && gr < 2.0 * PI) { return Err(format!("grade_angle {:e} outside [0, 2pi)", gr)); }
    // collections
    let c = GeoCollection::from(vec![a, b, a * b]);
    for (name, coll) in [("truncate", catches(|| GeoCollection::from(vec![a, b]).truncate(f))), ("select_cone", catches(|| GeoCollection::from(vec![a, b]).select_cone(&b, 1.0))),
                         ("scale_all", catches(|| GeoCollection::from(vec![a, b]).scale_all(f))), ("rotate_all", catches(|| GeoCollection::from(vec![a, b]).rotate_all(x)))] {
        match coll { Some(cc) => for g in cc.iter() { gok(name, g)?; }, None => return Err(format!("GeoCollection::{} panicked", name)) }
    }
    if catches(|| c.dominant().copied()).is_none() { return Err("dominant panicked".into()); }
    if !c.total_magnitude().is_finite() { return Err("total_magnitude not finite".into()); }
    Ok(a.mag != 0.0 && b.mag != 0.0)
}
fn g_newargs(r: &mut Rng) -> Vec<Val> { let (p, d) = gen_new_args(r); vec![Val::F(p), Val::F(d), Val::N(gen_blade(r))] }
fn c01_ctor(v: &[Val]) -> Result<bool, String> {
    let p = v[0].f().unwrap(); let d = v[1].f().unwrap(); let k = v[2].n().unwrap();
    match catches(move || Angle::new(p, d)) { Some(a) => canon("Angle::new", &a)?, None => return Err("Angle::new panicked".into()) }
    match catches(move || Angle::new_with_blade(k, p, d)) { Some(a) => canon("Angle::new_with_blade", &a)?, None => return Err("Angle::new_with_blade panicked".into()) }
    match catches(move || Angle::new_from_cartesian(p, d)) { Some(a) => canon("Angle::new_from_cartesian", &a)?, None => return Err("new_from_cartesian panicked".into()) }
    match catches(move || Geonum::new_from_cartesian(p, d)) { Some(g) => { if p.abs() < 1e150 && d.abs() < 1e150 { gok("Geonum::new_from_cartesian", &g)? } }, None => return Err("Geonum::new_from_cartesian panicked".into()) }
    match catches(move || Geonum::create_dimension(1.0, k)) { Some(g) => gok("create_dimension", &g)?, None => return Err("create_dimension panicked".into()) }
    let a = Angle::new(p, d);
    if a.blade() < (1 << 21) {
        let kk = 1.0 + (k % 7) as f64;
        match catches(move || a / kk) { Some(q) => canon("Angle / f64", &q)?, None => return Err("Angle / f64 panicked".into()) }
    }
    Ok(p != 0.0)
}

// ------------------------------------------------------------------------------------------------ C02
/// exact floor(2p/d) and the sign of 2p/d from the argument bit patterns (big-integer arithmetic)
fn exact_quarters(p: f64, d: f64) -> Option<(bool, u128, bool)> {
    // returns (negative?, floor(|2p/d|), |2p/d| is an integer)
    fn dec(x: f64) -> (bool, u128, i32) {
        let b = x.to_bits(); let neg = b >> 63 == 1; let ex = ((b >> 52) & 0x7ff) as i32; let fr = (b & ((1u64 << 52) - 1)) as u128;
        if ex == 0 { (neg, fr, -1074) } else { (neg, fr + (1u128 << 52), ex - 1075) }
    }
    let (np, mp, ep) = dec(p); let (nd, md, ed) = dec(d);
    if md == 0 { return None; }
    // |2p/d| = mp·2^(ep+1) / (md·2^ed)
    let e = ep + 1 - ed;
    if e > 60 || e < -120 { return None; }
    let (num, den) = if e >= 0 { (mp.checked_shl(e as u32)?, md) } else { (mp, md.checked_shl((-e) as u32)?) };
    if e >= 0 && (num >> e) != mp { return None; }
    if e < 0 && (den >> (-e)) != md { return None; }
    Some((np != nd && mp != 0, num / den, num % den == 0))
}
fn c02_new(v: &[Val]) -> Result<bool, String> {
    let p = v[0].f().unwrap(); let d = v[1].f().unwrap(); let k = v[2].n().unwrap();
    let a = Angle::new(p, d);
    canon("Angle::new", &a)?;
    // the float total p·π/d; computed quotient-first where the product p·π would overflow or go subnormal
    let total = if (p * PI).is_normal() { p * PI / d } else { p / d * PI };
    let (neg, fl, exact) = match exact_quarters(p, d) { Some(x) => x, None => return Ok(false) };
    let slack = TOL + 8.0 * EPS * total.abs().max(1.0);
    if !neg {
        // blade·π/2 + rem reproduces p·π/d; blade is floor(2p/d) unless the remainder is within tolerance of a boundary
        let b = a.blade() as u128;
        let back = (a.blade() as f64) * QP + a.rem();
        if (back - total).abs() > slack { return Err(format!("Angle::new({:e},{:e}) = {} has total {:e}, expected {:e}", p, d, show_a(&a), back, total)); }
        if b != fl {
            // allowed only if the exact total is within tolerance of the boundary it was moved to
            let frac_ok = (b == fl + 1 && a.rem() <= slack) || (b + 1 == fl && (QP - a.rem()) <= slack);
            if !frac_ok { return Err(format!("Angle::new({:e},{:e}) has blade {} but floor(2p/d) = {}", p, d, b, fl)); }
        }
        if exact && d == 2.0 && (a.blade() as u128 != fl || a.rem() != 0.0) { return Err(format!("exact quarter turns {:e}*pi/2 gave {}", p, show_a(&a))); }
        if exact && !((a.blade() as u128 == fl && a.rem() <= slack) || (a.blade() as u128 + 1 == fl && QP - a.rem() <= slack)) {
            return Err(format!("exact multiple of pi/2 ({:e}*pi/{:e}, {} quarter turns) gave {}", p, d, fl, show_a(&a)));
        }
    } else {
        // same direction modulo 2π as a forward rotation of fewer than two turns (at most one unless 2p/d is an integer)
        if a.blade() >= 8 { return Err(format!("negative argument gave blade {} (two turns or more)", a.blade())); }
        if !exact && (a.blade() > 4 || (a.blade() == 4 && a.rem() > slack)) { return Err(format!("negative non-integral argument gave {} (more than one turn)", show_a(&a))); }
        let want = total % (2.0 * PI);
        if ang_dist(ga(&a), want) > slack + 4.0 * EPS * total.abs() { return Err(format!("Angle::new({:e},{:e}) = {} points to {:e}, expected {:e} mod 2pi", p, d, show_a(&a), ga(&a), want)); }
    }
    // explicit blade offset adds exactly that many quarter turns
    let w = Angle::new_with_blade(k, p, d);
    if w.blade() != a.blade() + k || w.rem() != a.rem() { return Err(format!("new_with_blade({}, ..) = {} but new(..) = {}", k, show_a(&w), show_a(&a))); }
    let g = Geonum::new(2.5, p, d);
    if g.mag != 2.5 || !same_angle(&g.angle, &a) { return Err("Geonum::new disagrees with Angle::new".into()); }
    let gb = Geonum::new_with_blade(2.5, k, p, d);
    if gb.mag != 2.5 || !same_angle(&gb.angle, &w) { return Err("Geonum::new_with_blade disagrees with Angle::new_with_blade".into()); }
    let wa = Geonum::new_with_angle(0.5, a);
    if wa.mag != 0.5 || !same_angle(&wa.angle, &a) { return Err("Geonum::new_with_angle changed its arguments".into()); }
    Ok(p != 0.0)
}
fn g_cart(r: &mut Rng) -> Vec<Val> { let (x, y) = gen_cartesian(r); vec![Val::F(x), Val::F(y), Val::N(gen_blade(r))] }
fn c02_other(v: &[Val]) -> Result<bool, String> {
    let x = v[0].f().unwrap(); let y = v[1].f().unwrap(); let k = v[2].n().unwrap();
    let g = Geonum::new_from_cartesian(x, y);
    canon("new_from_cartesian", &g.angle)?;
    if !same_angle(&g.angle, &Angle::new_from_cartesian(x, y)) { return Err("Geonum and Angle new_from_cartesian disagree".into()); }
    // the length of the vector, for ALL finite x, y (reference: libm hypot, which neither overflows nor underflows early)
    let h = x.hypot(y);
    if h.is_finite() {
        if !(g.mag.is_finite() && g.mag >= 0.0) { return Err(format!("new_from_cartesian({:e},{:e}) has magnitude {:e}, the vector's length is {:e}", x, y, g.mag, h)); }
        if h >= 1e-300 && (g.mag - h).abs() > 8.0 * EPS * h { return Err(format!("new_from_cartesian({:e},{:e}) has magnitude {:e}, the vector's length is {:e}", x, y, g.mag, h)); }
    }
    let norm = (x * x + y * y).sqrt();
    if norm > 1e-150 && norm < 1e150 {
        let (cx, cy) = cart(&g);
        let tol = norm * (2.0 * TOL + 32.0 * EPS);
        if (cx - x).abs() > tol || (cy - y).abs() > tol { return Err(format!("new_from_cartesian({:e},{:e}) reproduces ({:e},{:e})", x, y, cx, cy)); }
        if g.angle.blade() > 4 { return Err(format!("new_from_cartesian gave blade {}", g.angle.blade())); }
    }
    let s = Geonum::scalar(x);
    if s.mag.to_bits() != x.abs().to_bits() || s.angle.rem() != 0.0 || s.angle.blade() != (if x < 0.0 { 2 } else { 0 }) { return Err(format!("scalar({:e}) = {}", x, show_g(&s))); }
    let dm = Geonum::create_dimension(norm, k);
    if dm.mag.to_bits() != norm.to_bits() || dm.angle.blade() != k || dm.angle.rem() != 0.0 { return Err(format!("create_dimension(.., {}) = {}", k, show_g(&dm))); }
    Ok(norm != 0.0)
}

// ------------------------------------------------------------------------------------------------ C16
fn g_c16(r: &mut Rng) -> Vec<Val> {
    let (mut a, mut b) = gen_geonum_pair(r);
    if r.chance(1, 10) {
        // signed zeros: a remainder (or magnitude) of -0.0 is what Angle::new(-0.0, d), new_from_cartesian(x, -0.0) and
        // Geonum::new(m, 0.0, negative d) return; it is the same value as +0.0 for == and must be for the order too
        let z = |r: &mut Rng| if r.chance(1, 2) { 0.0 } else { -0.0 };
        let bl = if r.chance(1, 2) { 0 } else { a.angle.blade() };
        let (ra, rb) = (z(r), z(r));
        let (ma, mb) = if r.chance(1, 3) { (z(r), z(r)) } else if r.chance(1, 2) { (a.mag, a.mag) } else { (a.mag, b.mag) };
        a = Geonum::new_with_angle(ma, mk_angle(bl, ra));
        b = Geonum::new_with_angle(mb, mk_angle(bl, rb));
    }
    if r.chance(1, 6) {
        // same blade, remainders a hair apart: around the 1e-15 tolerance of `==` (0.9e-15 .. 1.1e-15), or 1..40 ulps
        let ra = a.angle.rem();
        if ra > 1e-3 && ra < 1.5 {
            let gap = match r.below(3) { 0 => 1e-15 * (0.9 + 0.2 * r.unit()), 1 => (ulps(ra, r.range(1, 40)) - ra).abs(), _ => 1e-15 };
            let rb = if r.chance(1, 2) { ra + gap } else { ra - gap };
            b = Geonum::new_with_angle(if r.chance(1, 2) { a.mag } else { b.mag }, mk_angle(a.angle.blade(), rb));
        }
    }
    let c = match r.below(4) { 0 => a, 1 => Geonum::new_with_angle(b.mag, a.angle), 2 => Geonum::new_with_angle(a.mag, mk_angle(a.angle.blade(), gen_rem(r))), _ => gen_geonum(r) };
    vec![Val::G(a), Val::G(b), Val::G(c)]
}
fn c16_order(v: &[Val]) -> Result<bool, String> {
    let (a, b, c) = (v[0].g().unwrap(), v[1].g().unwrap(), v[2].g().unwrap());
    let (x, y) = (a.angle, b.angle);
    let e = x == y;
    if e && x.blade() != y.blade() { return Err("angles with different blade counts compare equal".into()); }
    if e && (x.rem() - y.rem()).abs() >= 1e-15 && x.rem() != y.rem() { return Err("angles with remainders 1e-15 or more apart compare equal".into()); }
    if x.blade() == y.blade() && x.rem() == y.rem() && !e { return Err("identical angles compare unequal".into()); }
    // the tolerance works in both directions: same blade and remainders less than 1e-15 apart ARE equal.  Judged only where the
    // difference of the two remainders is exact in f64 (Sterbenz: within a factor two of each other), so the reference is exact
    { let (p, q) = (x.rem(), y.rem());
      if x.blade() == y.blade() && p > 0.0 && q > 0.0 && p <= 2.0 * q && q <= 2.0 * p && (p - q).abs() < 1e-15 && !e {
          return Err(format!("same blade, remainders {:e} apart (less than 1e-15) compare unequal", (p - q).abs())); } }
    if (a == b) != (e && a.mag == b.mag) { return Err("Geonum equality is not (angle equal and magnitude identical)".into()); }
    // lexicographic order: blade, remainder, magnitude
    let want = x.blade().cmp(&y.blade()).then(x.rem().partial_cmp(&y.rem()).unwrap()).then(a.mag.partial_cmp(&b.mag).unwrap());
    if a.cmp(&b) != want { return Err(format!("cmp = {:?} but (blade, rem, mag) order is {:?}", a.cmp(&b), want)); }
    if x.cmp(&y) != x.blade().cmp(&y.blade()).then(x.rem().partial_cmp(&y.rem()).unwrap()) { return Err("Angle::cmp is not (blade, rem) order".into()); }
    if a.partial_cmp(&b) != Some(a.cmp(&b)) || x.partial_cmp(&y) != Some(x.cmp(&y)) { return Err("partial_cmp disagrees with cmp".into()); }
    if a.cmp(&b) != b.cmp(&a).reverse() { return Err("cmp is not antisymmetric".into()); }
    if a.cmp(&a) != Ordering::Equal { return Err("cmp is not reflexive".into()); }
    if a.cmp(&b) != Ordering::Greater && b.cmp(&c) != Ordering::Greater && a.cmp(&c) == Ordering::Greater { return Err("cmp is not transitive".into()); }
    // agreement with equality
    if x.cmp(&y) == Ordering::Equal && !e { return Err("cmp says Equal but == is false".into()); }
    if e && x.cmp(&y) != Ordering::Equal { return Err(format!("== is true but cmp says {:?} (remainders {:e} apart)", x.cmp(&y), (x.rem() - y.rem()).abs())); }
    if (a == b) && a.cmp(&b) != Ordering::Equal { return Err(format!("Geonum == is true but cmp says {:?} (remainders {:e} apart)", a.cmp(&b), (x.rem() - y.rem()).abs())); }
    Ok(x.blade() == y.blade())
}
fn g_sortlist(r: &mut Rng) -> Vec<Val> {
    let n = match r.below(8) { 0 | 1 => r.range(0, 8), 2..=6 => r.range(8, 100), _ => r.range(100, 2500) } as usize;
    let base = gen_list(r);
    let mut v = Vec::with_capacity(n);
    for _ in 0..n {
        let g = if !base.is_empty() && r.chance(1, 2) { let o = *r.pick(&base); Geonum::new_with_angle(if r.chance(1, 2) { o.mag } else { gen_mag(r) }, mk_angle(o.angle.blade(), if r.chance(1, 3) { ulps(o.angle.rem(), r.range(-3, 3)).max(0.0) } else if o.angle.rem() == 0.0 && r.chance(1, 2) { -0.0 } else { o.angle.rem() })) } else { Geonum::new_with_angle(gen_mag(r), mk_angle(r.below(6) as usize, gen_rem(r))) };
        v.push(g);
    }
    vec![Val::L(v)]
}
fn c16_sort(v: &[Val]) -> Result<bool, String> {
    let l = v[0].l().unwrap();
    let l2 = l.clone();
    let s = match catches(move || { let mut x = l2; x.sort(); x }) { Some(s) => s, None => return Err("sort panicked".into()) };
    if s.len() != l.len() { return Err("sort changed the length".into()); }
    for w in s.windows(2) { if w[0].cmp(&w[1]) == Ordering::Greater { return Err(format!("sorted output has {} before {}", show_g(&w[0]), show_g(&w[1]))); } }
    // non-decreasing in the stated (blade, remainder, magnitude) order, judged independently of the library's own cmp
    let refcmp = |p: &Geonum, q: &Geonum| p.angle.blade().cmp(&q.angle.blade()).then(p.angle.rem().partial_cmp(&q.angle.rem()).unwrap()).then(p.mag.partial_cmp(&q.mag).unwrap());
    for w in s.windows(2) { if refcmp(&w[0], &w[1]) == Ordering::Greater { return Err(format!("sorted output is not in (blade, rem, mag) order: {} before {}", show_g(&w[0]), show_g(&w[1]))); } }
    let key = |g: &Geonum| (g.angle.blade(), g.angle.rem().to_bits(), g.mag.to_bits());
    let mut k1: Vec<_> = l.iter().map(key).collect(); let mut k2: Vec<_> = s.iter().map(key).collect();
    k1.sort(); k2.sort();
    if k1 != k2 { return Err("sorted output is not a permutation of the input".into()); }
    Ok(l.len() > 1)
}

// ------------------------------------------------------------------------------------------------ C17
fn g_coll(r: &mut Rng) -> Vec<Val> {
    let a = gen_args("coll.select_cone", "LGF", r);
    let l = a[0].l().unwrap();
    let t = if !l.is_empty() && r.chance(2, 3) { ulps(r.pick(&l).mag, r.range(-1, 1)) } else { gen_mag(r) };
    vec![a[0].clone(), a[1].clone(), a[2].clone(), Val::F(t), Val::F(gen_factor(r)), Val::A(gen_angle(r))]
}
fn c17_coll(v: &[Val]) -> Result<bool, String> {
    let l = v[0].l().unwrap(); let dir = v[1].g().unwrap(); let half = v[2].f().unwrap();
    let t = v[3].f().unwrap(); let f = v[4].f().unwrap(); let x = v[5].a().unwrap();
    let c = GeoCollection::from(l.clone());
    let eq_list = |a: &[Geonum], b: &[Geonum]| a.len() == b.len() && a.iter().zip(b).all(|(p, q)| same_geonum(p, q));
    // conversions, indexing, iteration
    if c.len() != l.len() || c.is_empty() != l.is_empty() { return Err("len/is_empty wrong".into()); }
    if !eq_list(&c.objects, &l) || !eq_list(&c.iter().cloned().collect::<Vec<_>>(), &l) { return Err("From<Vec>/iter changed content or order".into()); }
    if !eq_list(&l.iter().cloned().collect::<GeoCollection>().objects, &l) { return Err("FromIterator changed content or order".into()); }
    if !eq_list(AsRef::<[Geonum]>::as_ref(&c), &l) || !eq_list(AsRef::<Vec<Geonum>>::as_ref(&c), &l) { return Err("AsRef changed content".into()); }
    if !eq_list(&(&c).into_iter().cloned().collect::<Vec<_>>(), &l) || !eq_list(&GeoCollection::from(l.clone()).into_iter().collect::<Vec<_>>(), &l) { return Err("IntoIterator changed content or order".into()); }
    for i in 0..l.len() { if !same_geonum(&c[i], &l[i]) { return Err(format!("index {} returned a different member", i)); } }
    if !GeoCollection::new().is_empty() || !GeoCollection::default().is_empty() { return Err("new/default not empty".into()); }
    // truncate: exactly the members strictly above the threshold, order kept
    let want: Vec<Geonum> = l.iter().filter(|g| g.mag > t).cloned().collect();
    if !eq_list(&c.truncate(t).objects, &want) { return Err(format!("truncate({:e}) kept {} members, expected {}", t, c.truncate(t).len(), want.len())); }
    // cone: non-zero members whose unsigned angle to the (non-zero) axis is at most the half-angle
    let sel = c.select_cone(&dir, half).objects;
    let mut it = sel.iter();
    let mut cur = it.next();
    for g in &l {
        let inside_ref = if g.mag * dir.mag == 0.0 { Some(false) } else {
            let ang = ang_dist(ga(&g.angle), ga(&dir.angle));
            // exactly parallel members (same remainder bits, blade counts congruent mod 4) are at unsigned angle exactly 0:
            // they sit on the surface of the cone of half-angle 0 and must be kept for every half-angle >= 0 ("at most")
            let parallel = g.angle.rem().to_bits() == dir.angle.rem().to_bits() && g.angle.blade() % 4 == dir.angle.blade() % 4;
            if parallel && half >= 0.0 && g.mag >= 1e-100 && dir.mag >= 1e-100 && g.mag * dir.mag <= 1e200 { Some(true) }
            else if (ang - half).abs() < 4e-8 + 4.0 * TOL { None } else { Some(ang <= half) }   // acos is ill-conditioned near 0 and pi
        };
        let taken = matches!(cur, Some(s) if same_geonum(s, g));
        match inside_ref {
            Some(true) => { if !taken { return Err(format!("select_cone dropped {} (axis {}, half-angle {:e})", show_g(g), show_g(&dir), half)); } cur = it.next(); }
            Some(false) => { if taken && !l.iter().filter(|o| same_geonum(o, g)).count() > 1 {
                                 // could be a later duplicate; only flag if no acceptable later twin explains it
                                 return Err(format!("select_cone kept {} (axis {}, half-angle {:e})", show_g(g), show_g(&dir), half)); } }
            None => { if taken { cur = it.next(); } }
        }
    }
    if cur.is_some() { return Err("select_cone returned members not in order / not in the collection".into()); }
    // the verdict on a member does not depend on its neighbours: the selection is the filter by the verdict each member gets alone
    // (exact, no tolerance: "keeps exactly the members whose angle to the axis is at most the half-angle" is a per-member predicate)
    let alone: Vec<Geonum> = l.iter().filter(|g| GeoCollection::from(vec![(*g).clone()]).select_cone(&dir, half).len() == 1).cloned().collect();
    if !eq_list(&sel, &alone) {
        let k = sel.iter().zip(alone.iter()).position(|(p, q)| !same_geonum(p, q)).unwrap_or(sel.len().min(alone.len()));
        let who = if k < alone.len() { show_g(&alone[k]) } else if k < sel.len() { show_g(&sel[k]) } else { String::from("?") };
        return Err(format!("select_cone judges member {} differently inside the collection ({} kept) than alone ({} kept) (axis {}, half-angle {:e})",
                           who, sel.len(), alone.len(), show_g(&dir), half));
    }
    let alone_t: Vec<Geonum> = l.iter().filter(|g| GeoCollection::from(vec![(*g).clone()]).truncate(t).len() == 1).cloned().collect();
    if !eq_list(&c.truncate(t).objects, &alone_t) { return Err(format!("truncate({:e}) judges a member differently inside the collection than alone", t)); }
    // maps
    let sc = c.scale_all(f).objects; let ro = c.rotate_all(x).objects;
    if sc.len() != l.len() || ro.len() != l.len() { return Err("scale_all/rotate_all changed the length".into()); }
    for i in 0..l.len() {
        if !same_geonum(&sc[i], &l[i].scale(f)) { return Err(format!("scale_all member {} is not member.scale(f)", i)); }
        if !same_geonum(&ro[i], &l[i].rotate(x)) { return Err(format!("rotate_all member {} is not member.rotate(r)", i)); }
    }
    // total magnitude and dominant
    let tm = c.total_magnitude();
    let sum: f64 = l.iter().map(|g| g.mag).sum();
    let big: f64 = l.iter().map(|g| g.mag).fold(0.0, f64::max);
    if (tm - sum).abs() > 4.0 * EPS * big * l.len() as f64 { return Err(format!("total_magnitude {:e} but the sum is {:e}", tm, sum)); }
    match c.dominant() {
        None => if !l.is_empty() { return Err("dominant is None on a non-empty collection".into()); },
        Some(d) => { if l.is_empty() { return Err("dominant is Some on an empty collection".into()); }
                     if !l.iter().any(|g| same_geonum(g, d)) { return Err("dominant is not a member".into()); }
                     if l.iter().any(|g| g.mag > d.mag) { return Err(format!("dominant {} is not maximal", show_g(d))); } }
    }
    // a non-empty collection of zero-magnitude members still has a (zero) maximum
    let zeros: Vec<Geonum> = l.iter().map(|g| Geonum::new_with_angle(0.0, g.angle)).collect();
    for (what, zc) in [("zeroed copy", GeoCollection::from(zeros.clone())), ("scale_all(0.0)", c.scale_all(0.0))] {
        match zc.dominant() {
            None => if !l.is_empty() { return Err(format!("dominant is None on a non-empty all-zero collection ({}, {} members)", what, l.len())); },
            Some(d) => { if l.is_empty() { return Err("dominant is Some on an empty collection".into()); }
                         if d.mag != 0.0 || !zc.objects.iter().any(|g| same_geonum(g, d)) { return Err(format!("dominant of an all-zero collection ({}) is not a member", what)); } }
        }
    }
    Ok(l.len() > 1)
}
/// sequences of collection operations against a plain-vector reference
fn g_collseq(r: &mut Rng) -> Vec<Val> {
    let l = gen_list(r);
    let n = r.range(1, 8) as usize;
    let ops: Vec<Geonum> = (0..n).map(|_| {
        let code = r.below(4) as f64;
        let param = match code as u64 { 0 => if !l.is_empty() && r.chance(1, 2) { r.pick(&l).mag } else { gen_mag(r) }, 1 => r.unit() * 5.0 - 1.0, 2 => gen_factor(r), _ => 0.0 };
        // mag = op code, angle = rotation / cone axis direction, rem-less param travels in a second geonum
        Geonum::new_with_angle(code * 16.0 + (param.abs() % 8.0), gen_angle(r))
    }).collect();
    vec![Val::L(l), Val::L(ops)]
}
fn c17_seq(v: &[Val]) -> Result<bool, String> {
    let l = v[0].l().unwrap(); let ops = v[1].l().unwrap();
    let mut c = GeoCollection::from(l.clone()); let mut m: Vec<Geonum> = l;
    for o in &ops {
        let code = (o.mag / 16.0).floor() as u64; let param = o.mag % 16.0;
        match code {
            0 => { c = c.truncate(param); m = m.into_iter().filter(|g| g.mag > param).collect(); }
            1 => { let axis = Geonum::new_with_angle(1.0, o.angle); let got = c.select_cone(&axis, param - 1.0);
                   // reference membership is decided by the library's own predicate on each member (order/filter semantics is what is checked here)
                   m = m.into_iter().filter(|g| GeoCollection::from(vec![*g]).select_cone(&axis, param - 1.0).len() == 1).collect(); c = got; }
            2 => { c = c.scale_all(param - 4.0); m = m.iter().map(|g| g.scale(param - 4.0)).collect(); }
            _ => { c = c.rotate_all(o.angle); m = m.iter().map(|g| g.rotate(o.angle)).collect(); }
        }
        if c.len() != m.len() || !c.iter().zip(m.iter()).all(|(p, q)| same_geonum(p, q)) { return Err(format!("after op code {} the collection differs from the plain-vector reference", code)); }
    }
    Ok(true)
}

// ------------------------------------------------------------------------------------------------ C18 / C19
fn relerr(a: f64, b: f64) -> f64 { if a == b { 0.0 } else { (a - b).abs() / a.abs().max(b.abs()) } }
fn g_c18(r: &mut Rng) -> Vec<Val> {
    let p = |r: &mut Rng| Val::G(Geonum::new_with_angle(gen_pos(r), gen_angle(r)));
    vec![p(r), p(r), p(r), p(r), Val::A(gen_angle(r)), Val::F(r.unit() * 2.0 - 1.0), Val::F(gen_pos(r))]
}
fn c18_helpers(v: &[Val]) -> Result<bool, String> {
    let (a, b, c, d) = (v[0].g().unwrap(), v[1].g().unwrap(), v[2].g().unwrap(), v[3].g().unwrap());
    let x = v[4].a().unwrap(); let e = v[5].f().unwrap(); let q = v[6].f().unwrap();
    let qt = Angle::new(1.0, 2.0); let pi = Angle::new(1.0, 1.0);
    let is = |what: &str, got: Geonum, want: Geonum| -> Result<(), String> { if same_geonum(&got, &want) { Ok(()) } else { Err(format!("{}: got {} expected {}", what, show_g(&got), show_g(&want))) } };
    // affine
    is("translate", a.translate(&b), a + b)?;
    is("shear", a.shear(x), Geonum::new_with_angle(a.mag, a.angle + x))?;
    let (e1, e2, e4) = (b + a.negate(), c + a.negate(), d + a.negate());
    let area = e1.wedge(&e2).mag / 2.0 + e2.wedge(&e4).mag / 2.0;
    if <Geonum as Affine>::area_quadrilateral(&a, &b, &c, &d).to_bits() != area.to_bits() { return Err("area_quadrilateral is not the sum of the two triangle wedge areas".into()); }
    // projection
    is("view", a.view(&x, |t: &Angle| *t), a.rotate(x))?;
    is("compose", a.compose(&b), a * b)?;
    // optics
    let n = Geonum::new_with_angle(a.angle.grade_angle().sin().abs() + q, b.angle);
    let rf = a.refract(n);
    is("refract", rf, Geonum::new_with_angle(a.mag, Angle::new((a.angle.grade_angle().sin() / n.mag).asin(), PI)))?;
    if a.angle.grade_angle().sin() != 0.0 {
        let n0 = Geonum::new_with_angle(a.angle.grade_angle().sin().abs(), b.angle);
        is("refract at n = |sin t_in|", a.refract(n0), Geonum::new_with_angle(a.mag, Angle::new((a.angle.grade_angle().sin() / n0.mag).asin(), PI)))?;
    }
    is("otf", a.otf(b, c), Geonum::new_with_angle(a.mag / (c.mag * b.mag), a.angle + qt))?;
    let m = a.magnify(b);
    is("magnify", m, Geonum::new_with_angle(a.mag * (1.0 / (b.mag * b.mag)), Angle::new(-a.angle.grade_angle().sin() / b.mag, PI)))?;
    let th = a.angle.grade_angle();
    is("abcd_transform", a.abcd_transform(a, b, c, d), Geonum::new_with_angle(a.mag * a.mag + b.mag * th, Angle::new(c.mag * a.mag + d.mag * th, PI)))?;
    let terms = [Geonum::new_with_angle(e.abs(), b.angle), Geonum::new_with_angle(q.min(2.0), c.angle)];
    let mut ph = a.angle;
    for t in &terms { ph = ph + Angle::new(t.mag * (t.angle.grade_angle().sin() * 3.0).cos(), PI); }
    is("aberrate", a.aberrate(&terms), Geonum::new_with_angle(a.mag, ph))?;
    // electromagnetics
    let mu0 = geonum::traits::electromagnetics::VACUUM_PERMEABILITY;
    let eps0 = geonum::traits::electromagnetics::VACUUM_PERMITTIVITY;
    let w = a.wedge(&b);
    is("poynting_vector", a.poynting_vector(&b), Geonum::new_with_angle(w.mag / mu0, w.angle))?;
    let pw = Geonum::new_with_angle(2.0, c.angle);
    let fld = <Geonum as Electromagnetics>::inverse_field(a, b, pw, x, d);
    let dirn = if a.angle.grade_angle().cos() >= 0.0 { x } else { x + pi };
    is("inverse_field", fld, Geonum::new_with_angle(d.mag * a.mag / b.mag.powf(2.0), dirn))?;
    let k = Geonum::scalar(1.0 / (4.0 * PI * eps0));
    is("electric_field", <Geonum as Electromagnetics>::electric_field(a, b), <Geonum as Electromagnetics>::inverse_field(a, b, Geonum::scalar(2.0), pi, k))?;
    is("electric_potential", <Geonum as Electromagnetics>::electric_potential(a, b), a * k / b)?;
    is("wire_vector_potential", <Geonum as Electromagnetics>::wire_vector_potential(a, b, c), Geonum::new_with_angle(c.mag * b.mag * a.mag.ln() / (2.0 * PI), qt))?;
    is("wire_magnetic_field", <Geonum as Electromagnetics>::wire_magnetic_field(a, b, c), Geonum::new_with_angle(c.mag * b.mag / (2.0 * PI * a.mag), Angle::new(0.0, 1.0)))?;
    let pot = (c.mag * a.mag - c.mag * d.mag * b.mag).cos() / a.mag;
    is("spherical_wave_potential", <Geonum as Electromagnetics>::spherical_wave_potential(a, b, c, d), Geonum::new_with_angle(pot.abs(), if pot >= 0.0 { Angle::new(0.0, 1.0) } else { pi }))?;
    if relerr(mu0, 4.0 * PI * 1e-7) > 0.0 || relerr(eps0, 1.0 / (mu0 * 3.0e8 * 3.0e8)) > 0.0 || geonum::traits::electromagnetics::VACUUM_IMPEDANCE != mu0 * 3.0e8 { return Err("electromagnetic constants changed".into()); }
    // waves
    is("propagate", a.propagate(b, c, d), Geonum::new_with_angle(a.mag, a.angle + (c - d * b).angle))?;
    is("disperse", <Geonum as Waves>::disperse(a, b, c, d), Geonum::new_with_angle(1.0, (c * a - d * b).angle))?;
    is("frequency", a.frequency(&b, c), Geonum::new_with_angle((a - b).mag / c.mag, qt))?;
    is("wavenumber", a.wavenumber(&b, c), Geonum::new_with_angle((a - b).mag / c.mag, qt))?;
    // machine learning
    is("forward_pass", a.forward_pass(&b, &c), Geonum::new_with_angle(a.mag * b.mag + c.mag, a.angle + b.angle))?;
    let ct = a.angle.grade_angle().cos();
    is("relu", a.activate(Activation::ReLU), Geonum::new_with_angle(if ct > 0.0 { a.mag } else { 0.0 }, a.angle))?;
    is("sigmoid", a.activate(Activation::Sigmoid), Geonum::new_with_angle(a.mag / (1.0 + (-ct).exp()), a.angle))?;
    is("tanh", a.activate(Activation::Tanh), Geonum::new_with_angle(a.mag * ct.tanh(), a.angle))?;
    is("identity", a.activate(Activation::Identity), a)?;
    is("regression_from", <Geonum as MachineLearning>::regression_from(e, q), Geonum::new_with_angle((e * e / q).sqrt(), Angle::new(e.atan2(q), PI)))?;
    let sx = if b.angle.grade() > 2 { -1.0 } else { 1.0 };
    is("perceptron_update", a.perceptron_update(q.min(1.0), e, &b), Geonum::new_with_angle(a.mag + q.min(1.0) * e * b.mag, a.angle + Angle::new(-q.min(1.0) * e * sx / PI, 1.0)))?;
    Ok(true)
}
fn g_c18core(r: &mut Rng) -> Vec<Val> { let (a, b) = gen_geonum_pair(r); vec![Val::G(a), Val::G(b), Val::A(gen_angle(r))] }
/// the helpers whose closed form is a single core operation, on the full core domain (zero magnitudes, blade histories, boundary shapes)
fn c18_core(v: &[Val]) -> Result<bool, String> {
    let a = v[0].g().unwrap(); let b = v[1].g().unwrap(); let x = v[2].a().unwrap();
    let is = |what: &str, got: Geonum, want: Geonum| -> Result<(), String> { if same_geonum(&got, &want) { Ok(()) } else { Err(format!("{}: got {} expected {}", what, show_g(&got), show_g(&want))) } };
    is("translate", a.translate(&b), a + b)?;
    is("shear", a.shear(x), a.rotate(x))?;
    is("view", a.view(&x, |t: &Angle| *t), a.rotate(x))?;
    is("compose", a.compose(&b), a * b)?;
    is("forward_pass", a.forward_pass(&b, &a), Geonum::new_with_angle(a.mag * b.mag + a.mag, a.angle + b.angle))?;
    is("identity", a.activate(Activation::Identity), a)?;
    let w = a.wedge(&b);
    is("poynting_vector", a.poynting_vector(&b), Geonum::new_with_angle(w.mag / geonum::traits::electromagnetics::VACUUM_PERMEABILITY, w.angle))?;
    let ct = a.angle.grade_angle().cos();
    is("relu", a.activate(Activation::ReLU), Geonum::new_with_angle(if ct > 0.0 { a.mag } else { 0.0 }, a.angle))?;
    is("tanh", a.activate(Activation::Tanh), Geonum::new_with_angle(a.mag * ct.tanh(), a.angle))?;
    is("sigmoid", a.activate(Activation::Sigmoid), Geonum::new_with_angle(a.mag / (1.0 + (-ct).exp()), a.angle))?;
    Ok(true)
}
fn c19_laws(v: &[Val]) -> Result<bool, String> {
    let (a, b, c, d) = (v[0].g().unwrap(), v[1].g().unwrap(), v[2].g().unwrap(), v[3].g().unwrap());
    let x = v[4].a().unwrap(); let q = v[6].f().unwrap();
    let s = 1e-3 * 10f64.powf(6.0 * (v[5].f().unwrap() + 1.0) / 2.0); // scale factor in [1e-3, 1e3]
    // refraction: magnitude preserved, n·sin(t_out) = sin(t_in) whenever |sin t_in| <= n
    let sin_in = a.angle.grade_angle().sin();
    let n = sin_in.abs() + q;
    let rf = a.refract(Geonum::new_with_angle(n, b.angle));
    if rf.mag.to_bits() != a.mag.to_bits() { return Err("refraction changed the magnitude".into()); }
    let sout = rf.angle.grade_angle().sin();
    if (n * sout - sin_in).abs() > n * (2.0 * TOL + 16.0 * EPS) + 16.0 * EPS { return Err(format!("Snell: n sin(t_out) = {:e} but sin(t_in) = {:e}", n * sout, sin_in)); }
    // the closed end of the domain: n bit-equal to |sin t_in| (critical incidence); skipped when sin is 0 (index 0 divides by zero)
    if sin_in != 0.0 {
        let n0 = sin_in.abs();
        let r0 = a.refract(Geonum::new_with_angle(n0, b.angle));
        if r0.mag.to_bits() != a.mag.to_bits() { return Err("refraction at the critical angle changed the magnitude".into()); }
        let s0 = r0.angle.grade_angle().sin();
        if (n0 * s0 - sin_in).abs() > n0 * (2.0 * TOL + 16.0 * EPS) + 16.0 * EPS { return Err(format!("Snell at the critical angle (n = |sin t_in| = {:e}): n sin(t_out) = {:e} but sin(t_in) = {:e}", n0, n0 * s0, sin_in)); }
    }
    // activations in sequence: a tanh layer hands a signed magnitude to the next activation; the angle still never changes
    {
        let ct = a.angle.grade_angle().cos();
        let t1 = a.activate(Activation::Tanh);
        if !same_angle(&t1.angle, &a.angle) { return Err("tanh changed the angle".into()); }
        for (nm, act) in [("relu", Activation::ReLU), ("sigmoid", Activation::Sigmoid), ("tanh", Activation::Tanh), ("identity", Activation::Identity)] {
            let r2 = t1.activate(act);
            if !same_angle(&r2.angle, &a.angle) { return Err(format!("{} after a tanh layer changed the angle: {} -> {} (input magnitude {:e})", nm, show_a(&a.angle), show_a(&r2.angle), t1.mag)); }
            match nm {
                "sigmoid" => if t1.mag != 0.0 && t1.mag.abs() >= 1e-100 && !(r2.mag.abs() < t1.mag.abs() && r2.mag * t1.mag > 0.0) { return Err(format!("sigmoid of magnitude {:e} gave {:e}, not strictly between 0 and it", t1.mag, r2.mag)); },
                "tanh" => if r2.mag.abs() > t1.mag.abs() { return Err("|tanh output| exceeds the magnitude".into()); },
                "relu" => if r2.mag.to_bits() != (if ct > 0.0 { t1.mag } else { 0.0 }).to_bits() { return Err("relu after tanh does not pass the magnitude iff cos t > 0".into()); },
                _ => if !same_geonum(&r2, &t1) { return Err("identity activation changed its input".into()); },
            }
        }
    }
    // magnification: intensity ∝ 1/m²
    let (m1, m2) = (a.magnify(b), a.magnify(Geonum::new_with_angle(b.mag * s, b.angle)));
    if relerr(m2.mag * s * s, m1.mag) > 16.0 * EPS { return Err("magnification does not scale intensity by 1/m^2".into()); }
    // inverse-power field ∝ q / r^n, half turn for negative charge; wire ∝ 1/r
    let pw = Geonum::new_with_angle(2.0, c.angle);
    let f1 = <Geonum as Electromagnetics>::inverse_field(a, b, pw, x, d);
    let f2 = <Geonum as Electromagnetics>::inverse_field(a, Geonum::new_with_angle(b.mag * s, b.angle), pw, x, d);
    if relerr(f2.mag * s * s, f1.mag) > 64.0 * EPS { return Err("inverse field does not fall as 1/r^n".into()); }
    let f3 = <Geonum as Electromagnetics>::inverse_field(Geonum::new_with_angle(a.mag * s, a.angle), b, pw, x, d);
    if relerr(f3.mag, f1.mag * s) > 64.0 * EPS { return Err("inverse field is not proportional to the charge".into()); }
    let pos = Geonum::new_with_angle(a.mag, Angle::new(0.0, 1.0)); let neg = Geonum::new_with_angle(a.mag, Angle::new(1.0, 1.0));
    let (fp, fn_) = (<Geonum as Electromagnetics>::inverse_field(pos, b, pw, x, d), <Geonum as Electromagnetics>::inverse_field(neg, b, pw, x, d));
    if !same_angle(&fp.angle, &x) || !same_angle(&fn_.angle, &(x + Angle::new(1.0, 1.0))) || fp.mag.to_bits() != fn_.mag.to_bits() { return Err("negative charge does not turn the field by a half turn".into()); }
    let (w1, w2) = (<Geonum as Electromagnetics>::wire_magnetic_field(a, b, c), <Geonum as Electromagnetics>::wire_magnetic_field(Geonum::new_with_angle(a.mag * s, a.angle), b, c));
    if relerr(w2.mag * s, w1.mag) > 16.0 * EPS { return Err("wire field does not fall as 1/r".into()); }
    // activations never change the angle; ReLU / sigmoid / tanh magnitude laws; propagation; dispersion
    let ct = a.angle.grade_angle().cos();
    for act in [Activation::ReLU, Activation::Sigmoid, Activation::Tanh, Activation::Identity] {
        if !same_angle(&a.activate(act).angle, &a.angle) { return Err(format!("{:?} activation changed the angle", act)); }
    }
    let relu = a.activate(Activation::ReLU).mag;
    if (ct > 0.0 && relu.to_bits() != a.mag.to_bits()) || (!(ct > 0.0) && relu != 0.0) { return Err("ReLU does not pass the magnitude iff cos t > 0".into()); }
    let sg = a.activate(Activation::Sigmoid).mag;
    if !(sg > 0.0 && sg < a.mag) { return Err(format!("sigmoid output {:e} not strictly between 0 and {:e}", sg, a.mag)); }
    if a.activate(Activation::Tanh).mag.abs() > a.mag { return Err("|tanh output| exceeds the magnitude".into()); }
    if a.propagate(b, c, d).mag.to_bits() != a.mag.to_bits() { return Err("propagation changed the magnitude".into()); }
    if <Geonum as Waves>::disperse(a, b, c, d).mag != 1.0 { return Err("dispersion does not have unit magnitude".into()); }
    Ok(true)
}
fn g_quad(r: &mut Rng) -> Vec<Val> {
    // convex quadrilateral: four points on a circle around a centre, in counter-clockwise order
    let cx = (r.unit() * 2.0 - 1.0) * 3.0; let cy = (r.unit() * 2.0 - 1.0) * 3.0; let rad = 0.5 + r.unit() * 3.0;
    let mut ts: Vec<f64> = (0..4).map(|i| (i as f64 + 0.15 + 0.7 * r.unit()) * PI / 2.0).collect();
    ts.sort_by(|a, b| a.partial_cmp(b).unwrap());
    let mut v: Vec<Val> = ts.iter().map(|t| { let g = Geonum::new_from_cartesian(cx + rad * (1.0 + 0.3 * r.unit()) * t.cos(), cy + rad * (1.0 + 0.3 * r.unit()) * t.sin());
        Val::G(Geonum::new_with_angle(g.mag, mk_angle(g.angle.blade() + 4 * r.below(3) as usize, g.angle.rem()))) }).collect();
    v.push(Val::G(Geonum::new_from_cartesian((r.unit() * 2.0 - 1.0) * 5.0, (r.unit() * 2.0 - 1.0) * 5.0)));
    v.push(Val::A(gen_angle(r)));
    v
}
fn c19_area(v: &[Val]) -> Result<bool, String> {
    let p: Vec<Geonum> = (0..4).map(|i| v[i].g().unwrap()).collect();
    let t = v[4].g().unwrap(); let rot = v[5].a().unwrap();
    let area = <Geonum as Affine>::area_quadrilateral(&p[0], &p[1], &p[2], &p[3]);
    let xy: Vec<(f64, f64)> = p.iter().map(cart).collect();
    let mut sh = 0.0;
    for i in 0..4 { let (x1, y1) = xy[i]; let (x2, y2) = xy[(i + 1) % 4]; sh += x1 * y2 - x2 * y1; }
    let sh = sh.abs() / 2.0;
    let scale: f64 = p.iter().map(|g| g.mag).fold(0.0, f64::max) + t.mag;
    let tol = scale * scale * 1e-7 + 1e-9;
    if (area - sh).abs() > tol { return Err(format!("area {:e} but the shoelace area is {:e}", area, sh)); }
    let moved: Vec<Geonum> = p.iter().map(|g| g.translate(&t)).collect();
    let a2 = <Geonum as Affine>::area_quadrilateral(&moved[0], &moved[1], &moved[2], &moved[3]);
    if (a2 - area).abs() > tol { return Err(format!("area changed from {:e} to {:e} under a common translation", area, a2)); }
    let turned: Vec<Geonum> = p.iter().map(|g| g.rotate(rot)).collect();
    let a3 = <Geonum as Affine>::area_quadrilateral(&turned[0], &turned[1], &turned[2], &turned[3]);
    let rt = tol + scale * scale * 8.0 * ({ let u = (rot.blade() as f64 + 8.0) * QP; ulps(u, 1) - u });
    if (a3 - area).abs() > rt { return Err(format!("area changed from {:e} to {:e} under a common rotation", area, a3)); }
    Ok(true)
}

pub fn clauses3() -> Vec<Clause> {
    vec![
        Clause { prop: "C01", name: "total", sig: "GGFA", gen: g_c01, check: c01_total },
        Clause { prop: "C01", name: "ctor", sig: "FFN", gen: g_newargs, check: c01_ctor },
        Clause { prop: "C02", name: "new", sig: "FFN", gen: g_newargs, check: c02_new },
        Clause { prop: "C02", name: "other", sig: "FFN", gen: g_cart, check: c02_other },
        Clause { prop: "C16", name: "order", sig: "GGG", gen: g_c16, check: c16_order },
        Clause { prop: "C16", name: "sort", sig: "L", gen: g_sortlist, check: c16_sort },
        Clause { prop: "C17", name: "coll", sig: "LGFFFA", gen: g_coll, check: c17_coll },
        Clause { prop: "C17", name: "seq", sig: "LL", gen: g_collseq, check: c17_seq },
        Clause { prop: "C18", name: "helpers", sig: "GGGGAFF", gen: g_c18, check: c18_helpers },
        Clause { prop: "C18", name: "core", sig: "GGA", gen: g_c18core, check: c18_core },
        Clause { prop: "C19", name: "laws", sig: "GGGGAFF", gen: g_c18, check: c19_laws },
        Clause { prop: "C19", name: "area", sig: "GGGGGA", gen: g_quad, check: c19_area },
    ]
}
