//! structured generators: mostly-valid inputs built from the repo's own types, boundary shapes for every
//! float comparison in the modelled source, and a separate malformed stream
use crate::rng::*;
use crate::val::*;
use geonum::traits::Activation;
use geonum::{Angle, Geonum};
use std::f64::consts::{FRAC_PI_2, PI};

pub const QP: f64 = FRAC_PI_2;

/// change-directed dictionary (DESIGN §4): the numeric literals and named float constants that occur in the source functions whose
/// text differs from the recorded one, passed by `./check` in `VERIF_DICT`.  Empty on the unchanged tree, so the base generators
/// are unaffected there; when a function changed, its constants (new thresholds, tolerances, scale factors) are fed into every
/// pool below, and `relate` ties arguments to functions of each other.
pub fn dict() -> &'static [f64] {
    static D: std::sync::OnceLock<Vec<f64>> = std::sync::OnceLock::new();
    D.get_or_init(|| {
        std::env::var("VERIF_DICT").unwrap_or_default().split(',')
            .filter_map(|t| t.trim().parse::<f64>().ok()).filter(|x| x.is_finite() && *x != 0.0).collect()
    })
}
fn dict_pick(r: &mut Rng) -> Option<f64> {
    let d = dict();
    if d.is_empty() { None } else { Some(*r.pick(d)) }
}
/// a dictionary value, jittered: exact, a few ulps off, or scaled into its neighbourhood
fn dict_near(r: &mut Rng) -> Option<f64> {
    let d = dict_pick(r)?;
    Some(match r.below(6) { 0 | 1 => d, 2 => ulps(d, r.range(-3, 3)), 3 => d * (0.1 + 0.9 * r.unit()), 4 => d * (1.0 + r.unit()), _ => -d })
}

/// the reachable-state invariant of `Angle` (DESIGN §3.6): 0 <= rem, and not within the 1e-10 snap band of π/2
pub fn canonical_rem(rem: f64) -> bool {
    rem >= 0.0 && rem < QP && !((rem - QP).abs() < 1e-10)
}

pub fn gen_blade(r: &mut Rng) -> usize {
    if !dict().is_empty() && r.chance(1, 10) {
        if let Some(d) = dict_pick(r) { let d = d.abs(); if d >= 1.0 && d < 1e12 && d.fract() == 0.0 { return (d as usize + r.below(3) as usize).saturating_sub(1); } }
    }
    (match r.below(24) {
        0..=9 => r.below(8),
        10 | 11 => 1000 + r.below(8),
        12 => 1_000_000 + r.below(8),
        13 => (1u64 << 31) - 2 + r.below(5),
        14 => (1u64 << 32) - 2 + r.below(5),
        15 => (1u64 << 40) - r.below(8),
        16 => r.below(1u64 << 40),
        17 => r.below(1u64 << 20),
        18 => 4 * r.below(1000),
        19 => (1u64 << 21) - r.below(4),
        _ => r.below(64),
    }) as usize
}

pub fn gen_rem(r: &mut Rng) -> f64 {
    if !dict().is_empty() && r.chance(1, 8) {
        if let Some(d) = dict_near(r) { let d = d.abs(); if canonical_rem(d) { return d; } if canonical_rem(QP - d) { return QP - d; } }
    }
    let x = match r.below(20) {
        0..=4 => 0.0,
        5..=7 => (r.range(1, 11) as f64) * QP / 12.0,
        8 => ulps(QP - 1e-10, -(r.range(0, 6))),
        9 => ulps(QP - 1e-10, -(r.range(0, 1000))),
        10 => *r.pick(&[1e-15, 1e-10, 1e-16, 5e-324, 1e-300, 2e-15, 9.9e-16, 1.1e-10, 1e-9, 1e-12]),
        11 => ulps(*r.pick(&[1e-15, 1e-10]), r.range(-3, 3)),
        12 => QP / 2.0 + (r.unit() - 0.5) * 1e-9,
        13 => PI / 4.0,
        _ => r.unit() * (QP - 1e-10),
    };
    if canonical_rem(x) { x } else { 0.0 }
}

pub fn gen_angle(r: &mut Rng) -> Angle { mk_angle(gen_blade(r), gen_rem(r)) }

fn fix_rem(x: f64, fallback: f64) -> f64 { if canonical_rem(x) { x } else { fallback } }

/// pairs of canonical angles in the shapes the source's comparisons distinguish
pub fn gen_angle_pair(r: &mut Rng) -> (Angle, Angle) {
    let a = gen_angle(r);
    let (ab, ar) = (a.blade(), a.rem());
    if !dict().is_empty() && r.chance(1, 6) {
        if let Some(d) = dict_near(r) {
            let db = *r.pick(&[0usize, 0, 1, 2, 3, 4, 6]);
            let b = mk_angle(ab + db, fix_rem(ar + d, fix_rem(ar - d, ar)));
            return if r.chance(1, 2) { (a, b) } else { (b, a) };
        }
    }
    let b = match r.below(16) {
        0..=3 => gen_angle(r),
        4 => a,
        5 => {
            let d = *r.pick(&[1usize, 2, 3, 4, 6, 10, 8, 12, 4000, 1 << 20]);
            if r.chance(1, 2) { mk_angle(ab + d, ar) } else { mk_angle(ab.saturating_sub(d), ar) }
        }
        6 => {
            let k = r.range(-8, 8);
            let db = *r.pick(&[0usize, 0, 2, 4, 1]);
            mk_angle(ab + db, fix_rem(ulps(ar, k), ar))
        }
        7 => {
            // gap around 1e-15: on it, and a few ulps of the gap either side
            let gap = ulps(1e-15, r.range(-4, 4));
            let sign = if r.chance(1, 2) { 1.0 } else { -1.0 };
            let db = *r.pick(&[0usize, 0, 2, 6]);
            mk_angle(ab + db, fix_rem(ar + sign * gap, ar))
        }
        8 => {
            let gap = *r.pick(&[1e-10, 5e-11, 1e-12, 1e-13, 9e-16, 5e-16, 2e-16]) * (0.5 + r.unit());
            let sign = if r.chance(1, 2) { 1.0 } else { -1.0 };
            mk_angle(gen_blade(r), fix_rem(ar + sign * gap, ar))
        }
        9 => {
            // remainders summing to π/2 ± a few ulps (angle.rs:261 `(total_rem - qp).abs() < 1e-15`)
            mk_angle(gen_blade(r), fix_rem(ulps(QP - ar, r.range(-8, 8)), 0.0))
        }
        10 => {
            // remainders summing to π/2 ± 1e-10 ± ulps (angle.rs:217)
            let s = if r.chance(1, 2) { 1e-10 } else { -1e-10 };
            mk_angle(gen_blade(r), fix_rem(ulps(QP + s - ar, r.range(-4, 4)), 0.0))
        }
        11 => mk_angle(ab + 4 * (r.below(1 << 20) as usize + 1), ar),
        12 => mk_angle(ab + 2, ar),
        13 => a + Angle::new(1.0, 1.0),
        14 => {
            // nearly opposite / nearly parallel
            let eps = *r.pick(&[1e-15, 1e-14, 1e-12, 1e-10, 1e-9, 1e-8, 1e-6]) * (0.5 + r.unit());
            let db = *r.pick(&[0usize, 2, 6, 4]);
            mk_angle(ab + db, fix_rem(ar + if r.chance(1, 2) { eps } else { -eps }, ar))
        }
        _ => mk_angle(ab + 1, ar),
    };
    if r.chance(1, 2) { (a, b) } else { (b, a) }
}

pub fn log_uniform(r: &mut Rng, lo_exp: f64, hi_exp: f64) -> f64 {
    10f64.powf(lo_exp + r.unit() * (hi_exp - lo_exp))
}

pub fn gen_mag(r: &mut Rng) -> f64 {
    if !dict().is_empty() && r.chance(1, 8) {
        if let Some(d) = dict_near(r) { let d = d.abs(); if d >= 1e-100 && d <= 1e100 { return d; } }
    }
    match r.below(20) {
        // a zero magnitude may carry the sign bit (`scale_rotate(-0.0, …)` produces one): numerically a zero, hence in the domain
        0 | 1 => if r.chance(1, 8) { -0.0 } else { 0.0 },
        2 | 3 => 1.0,
        4 => *r.pick(&[1e-100, 1e100, 1e-10, 1e10, 2.0, 0.5, 3.0]),
        5 | 6 => 2f64.powi(r.range(-20, 20) as i32),
        7 => r.range(1, 20) as f64,
        8..=10 => log_uniform(r, -100.0, 100.0),
        _ => log_uniform(r, -3.0, 3.0),
    }
}

pub fn gen_mag_pair(r: &mut Rng) -> (f64, f64) {
    let a = gen_mag(r);
    if !dict().is_empty() && a != 0.0 && r.chance(1, 5) {
        // the second magnitude sits at a dictionary distance from the first: absolute, relative, or as a ratio
        if let Some(d) = dict_near(r) {
            let b = match r.below(5) { 0 => a + d, 1 => a * (1.0 + d), 2 => a * d.abs(), 3 => a + d * a.max(1.0), _ => a / d.abs() };
            let b = ulps(b.abs(), r.range(-2, 2));
            if b.is_finite() && b >= 1e-100 && b <= 1e100 { return if r.chance(1, 2) { (a, b) } else { (b, a) }; }
        }
    }
    let b = match r.below(10) {
        0..=3 => gen_mag(r),
        4 => a,
        5 => { let m = ulps(a, r.range(-8, 8)).abs(); if m >= 1e-100 { m } else { a } }
        6 => (a + ulps(1e-10, r.range(-2, 2)) * if r.chance(1, 2) { 1.0 } else { -1.0 }).abs(),
        7 => a * (1.0 + *r.pick(&[1e-16, 1e-14, 1e-12, 1e-9, 1e-6]) * (r.unit() - 0.5)),
        8 => a * *r.pick(&[1e-30, 1e30, 1e-8, 1e8]),
        _ => gen_mag(r),
    };
    let b = if b.is_finite() && b <= 1e100 && (b == 0.0 || b >= 1e-100) { b } else { a };
    if r.chance(1, 2) { (a, b) } else { (b, a) }
}

pub fn gen_geonum(r: &mut Rng) -> Geonum {
    let a = gen_angle(r);
    Geonum::new_with_angle(gen_mag(r), a)
}

pub fn gen_geonum_pair(r: &mut Rng) -> (Geonum, Geonum) {
    if r.chance(1, 24) { let g = gen_geonum(r); return (g, g); }   // identical operands: the correspondence borrows one object twice
    let (a, b) = gen_angle_pair(r);
    let (m, n) = gen_mag_pair(r);
    (Geonum::new_with_angle(m, a), Geonum::new_with_angle(n, b))
}

/// a pair whose dot magnitude `|a||b||cos|` sits on the orthogonality threshold 1e-10, within a few ulps either side
/// (geonum_mod.rs `is_orthogonal`: `dot.mag.abs() < EPSILON`)
pub fn gen_dot_threshold_pair(r: &mut Rng) -> (Geonum, Geonum) {
    let (a0, b0) = gen_geonum_pair(r);
    let a = Geonum::new_with_angle(if a0.mag == 0.0 || r.chance(1, 2) { log_uniform(r, -3.0, 3.0) } else { a0.mag }, a0.angle);
    let u = a.dot(&Geonum::new_with_angle(1.0, b0.angle)).mag;
    if !(u > 0.0) || !u.is_finite() { return (a, b0); }
    let m = ulps(1e-10 / u, r.range(-6, 6));
    let b = Geonum::new_with_angle(if m.is_finite() && m >= 1e-100 && m <= 1e100 { m } else { b0.mag }, b0.angle);
    if r.chance(1, 2) { (a, b) } else { (b, a) }
}

/// non-zero magnitude in the "physical" range
pub fn gen_pos(r: &mut Rng) -> f64 {
    match r.below(8) {
        0 => 1.0,
        1 => *r.pick(&[2.0, 0.5, 10.0, 1e-3, 1e3, 1.5, 1.33]),
        2 => log_uniform(r, -8.0, 8.0),
        _ => log_uniform(r, -3.0, 3.0),
    }
}
pub fn gen_pos_geonum(r: &mut Rng) -> Geonum { Geonum::new_with_angle(gen_pos(r), gen_angle(r)) }

pub fn gen_list(r: &mut Rng) -> Vec<Geonum> {
    let n = match r.below(10) { 0 => 0, 1 => 1, 2 => 2, 3..=6 => r.range(3, 12), 7 | 8 => r.range(13, 40), _ => r.range(41, 64) } as usize;
    let mut v: Vec<Geonum> = Vec::with_capacity(n);
    for _ in 0..n {
        let g = if !v.is_empty() && r.chance(1, 4) {
            let o = *r.pick(&v);
            match r.below(6) {
                5 => {
                    // a twin of the PREVIOUS member: same magnitude and blade, remainder a few ulps away (adjacent near-duplicates:
                    // anything that caches or reuses a verdict between neighbours is exposed by a threshold placed between the two)
                    let p = *v.last().unwrap();
                    let rem = p.angle.rem();
                    if rem > 1e-9 && rem < 1.5 { Geonum::new_with_angle(p.mag, mk_angle(p.angle.blade(), ulps(rem, *r.pick(&[-4, -3, -2, -1, 1, 2, 3, 4])))) } else { p }
                }
                0 => o,
                1 => Geonum::new_with_angle(o.mag, mk_angle(o.angle.blade() + 4 * (1 + r.below(5) as usize), o.angle.rem())),
                2 => Geonum::new_with_angle(o.mag, gen_angle(r)),
                3 => { let m = ulps(o.mag, r.range(-2, 2)).abs(); Geonum::new_with_angle(if m >= 1e-100 && m <= 1e100 { m } else { o.mag }, o.angle) }
                _ => Geonum::new_with_angle(0.0, o.angle),
            }
        } else { gen_geonum(r) };
        v.push(g);
    }
    v
}

/// `(p, d)` for `Angle::new`
pub fn gen_new_args(r: &mut Rng) -> (f64, f64) {
    let d = match r.below(16) {
        0..=3 => 2.0,
        4 => 1.0,
        5 => *r.pick(&[3.0, 4.0, 5.0, 6.0, 7.0, 8.0, 12.0, 16.0, 180.0, 360.0]),
        6 => PI,
        7 => *r.pick(&[-3.0, -2.0, -1.0, 0.37, -0.37, 1e-3, 1e3, 2.5]),
        8 => ulps(2.0, r.range(-1, 1)),
        9 => log_uniform(r, -3.0, 3.0) * if r.chance(1, 4) { -1.0 } else { 1.0 },
        10 => 4.0,
        // extreme scales (the quotient 2p/d, not p or d, is what the domain bounds): p·π overflows above 5.7e307 and is
        // subnormal below 7e-309 — the constructor must not lose the angle there
        11 => (match r.below(4) {
            0 => log_uniform(r, 305.0, 308.2),
            1 => 5e-324 * (1 + r.below(1 << 20)) as f64,
            2 => log_uniform(r, -310.0, -290.0),
            _ => log_uniform(r, -100.0, 100.0),
        }) * if r.chance(1, 4) { -1.0 } else { 1.0 },
        _ => *r.pick(&[1.0, 2.0, 3.0, 4.0, 6.0, PI]),
    };
    let p = match r.below(16) {
        0..=2 => r.range(-16, 40) as f64,
        3 => r.range(-(1 << 21), 1 << 21) as f64,
        4 => {
            // exact multiple of π/2 written with this divisor: 2p/d = k
            let k = r.range(-2000, 4000) as f64;
            k * d / 2.0
        }
        5 => (r.range(-100, 100) as f64) * d / 2.0 + ulps(0.0, r.range(-3, 3)),
        6 => r.unit() * 8.0 - 2.0,
        7 => (r.unit() - 0.3) * (1u64 << 30) as f64,
        8 => *r.pick(&[0.0, -0.0, 5e-324, -5e-324, 1e-300, -1e-300, 1e-17, -1e-17]),
        9 => ulps(r.range(-8, 8) as f64, r.range(-2, 2)),
        10 => r.range(0, 1 << 20) as f64 + 0.5,
        11 => (r.unit() - 0.2) * d * (1u64 << 39) as f64,
        12 => r.range(-1000, 1000) as f64 / 7.0,
        13 => (r.range(-40, 40) as f64 / 12.0) * d,
        14 => (r.unit() * 8.0 - 2.0) * d,
        _ => (r.unit() - 0.25) * 40.0,
    };
    let q = 2.0 * p / d;
    if p.is_finite() && d != 0.0 && q.abs() <= (1u64 << 40) as f64 { (p, d) } else { (1.0, 3.0) }
}

pub fn gen_cartesian(r: &mut Rng) -> (f64, f64) {
    if !dict().is_empty() && r.chance(1, 4) {
        if let Some(d) = dict_near(r) {
            let o = match r.below(4) { 0 => d * (0.1 + r.unit()), 1 => gen_pos(r) * if r.chance(1, 2) { -1.0 } else { 1.0 }, 2 => d, _ => d * r.unit() * 1e-3 };
            return if r.chance(1, 2) { (d, o) } else { (o, d) };
        }
    }
    if r.chance(1, 8) {
        // C02 quantifies over ALL finite x, y: both coordinates at one extreme scale (the squares overflow above ~1.3e154 and lose
        // their digits below ~1.5e-154)
        let s = log_uniform(r, -300.0, 300.0);
        let c = |r: &mut Rng| -> f64 { match r.below(6) { 0 => 0.0, 1 => s, 2 => -s, _ => (r.unit() * 2.0 - 1.0) * s } };
        return (c(r), c(r));
    }
    let m = gen_pos(r);
    let pick = |r: &mut Rng| -> f64 {
        match r.below(10) {
            0 => 0.0,
            1 => -0.0,
            2 => m,
            3 => -m,
            4 => 5e-324,
            5 => 1e-300 * if r.chance(1, 2) { 1.0 } else { -1.0 },
            6 => m * 1e-17 * if r.chance(1, 2) { 1.0 } else { -1.0 },
            _ => (r.unit() * 2.0 - 1.0) * m,
        }
    };
    (pick(r), pick(r))
}

pub fn gen_factor(r: &mut Rng) -> f64 {
    if !dict().is_empty() && r.chance(1, 5) { if let Some(d) = dict_near(r) { return d; } }
    match r.below(12) {
        0 => 0.0,
        1 => -0.0,
        2 => 1.0,
        3 => -1.0,
        4 => 5e-324,
        5 => -5e-324,
        6 => 2.0,
        7 => -0.5,
        _ => (r.unit() * 2.0 - 1.0) * log_uniform(r, -3.0, 3.0),
    }
}

pub fn gen_f_generic(r: &mut Rng) -> f64 {
    if !dict().is_empty() && r.chance(1, 5) { if let Some(d) = dict_near(r) { return d; } }
    match r.below(10) {
        0 => 0.0,
        1 => 1.0,
        2 => -1.0,
        3 => r.range(-10, 10) as f64,
        4 => (r.unit() * 2.0 - 1.0) * PI * 4.0,
        5 => log_uniform(r, -12.0, 12.0) * if r.chance(1, 3) { -1.0 } else { 1.0 },
        6 => ulps(*r.pick(&[1e-10, 1e-15, QP, PI, 1.0, 2.0]), r.range(-2, 2)),
        _ => (r.unit() * 2.0 - 1.0) * 10.0,
    }
}

pub fn malform_f(r: &mut Rng) -> f64 {
    *r.pick(&[f64::NAN, f64::INFINITY, f64::NEG_INFINITY, -0.0, -1.0, -1e-300, 1e308, -1e308, 1.7976931348623157e308, 5e-324, 1e200, 4e18, 2e19, -3.5, QP, ulps(QP, 1), ulps(QP, -1), PI, 7.0])
}
pub fn malform_angle(r: &mut Rng) -> Angle {
    let rem = match r.below(6) {
        // no ±inf / huge remainders: `(rem / qp) as usize` would saturate and the blade sum overflow `usize`,
        // which the Nat model deliberately does not represent (outside every property's domain)
        0 => *r.pick(&[f64::NAN, -0.0, -1.0, -1e-300, 5e-324, -3.5, 7.0, 1e6, 123456.789, PI]),
        1 => QP - r.unit() * 1e-10,
        2 => QP + r.unit() * 4.0,
        3 => -r.unit(),
        4 => ulps(QP, r.range(-3, 3)),
        _ => gen_rem(r),
    };
    mk_angle(gen_blade(r), rem)
}
pub fn malform_geonum(r: &mut Rng) -> Geonum {
    let m = if r.chance(1, 2) { malform_f(r) } else { gen_mag(r) };
    let a = if r.chance(1, 2) { malform_angle(r) } else { gen_angle(r) };
    Geonum::new_with_angle(m, a)
}

pub fn gen_activation(r: &mut Rng) -> Activation {
    *r.pick(&[Activation::ReLU, Activation::Sigmoid, Activation::Tanh, Activation::Identity])
}

fn default_args(sig: &str, r: &mut Rng) -> Vec<Val> {
    let cs: Vec<char> = sig.chars().collect();
    let mut out = Vec::new();
    let mut i = 0;
    while i < cs.len() {
        match cs[i] {
            'A' if i + 1 < cs.len() && cs[i + 1] == 'A' => {
                let (a, b) = gen_angle_pair(r);
                out.push(Val::A(a)); out.push(Val::A(b)); i += 2; continue;
            }
            'G' if i + 1 < cs.len() && cs[i + 1] == 'G' => {
                let (a, b) = gen_geonum_pair(r);
                out.push(Val::G(a)); out.push(Val::G(b)); i += 2; continue;
            }
            'A' => out.push(Val::A(gen_angle(r))),
            'G' => out.push(Val::G(gen_geonum(r))),
            'F' => out.push(Val::F(gen_f_generic(r))),
            'N' => out.push(Val::N(gen_blade(r))),
            'I' => out.push(Val::I(r.range(-(1 << 41), 1 << 41))),
            'L' => out.push(Val::L(gen_list(r))),
            'T' => out.push(Val::T(gen_activation(r))),
            _ => unreachable!(),
        }
        i += 1;
    }
    out
}

/// well-formed arguments for one op (inside the properties' domain); in change-directed mode a fifth of the cases additionally
/// tie one argument to a function of another (`relate`)
pub fn gen_args(name: &str, sig: &str, r: &mut Rng) -> Vec<Val> {
    let mut v = gen_args_base(name, sig, r);
    if !dict().is_empty() && !name.starts_with("arith.") && r.chance(1, 5) { relate(&mut v, r); }
    v
}

/// candidates computed from the other arguments: the exact ties a data-dependent comparison could be sitting on
pub fn relate(v: &mut Vec<Val>, r: &mut Rng) {
    let mut cands: Vec<f64> = Vec::new();
    for x in v.iter() {
        match x {
            Val::F(f) => cands.extend_from_slice(&[*f, -*f, 1.0 / *f, *f * *f, f.abs().sqrt(), f.abs()]),
            Val::A(a) => { let t = a.grade_angle(); cands.extend_from_slice(&[a.rem(), t, t.sin(), t.cos(), t.sin().abs(), t.cos().abs(), t.tan(), a.blade() as f64]); }
            Val::G(g) => { let t = g.angle.grade_angle();
                cands.extend_from_slice(&[g.mag, g.mag * g.mag, 1.0 / g.mag, g.mag.sqrt(), g.angle.rem(), t, t.sin(), t.cos(), t.sin().abs(), t.cos().abs(), t.tan().abs(),
                                          g.mag * t.cos(), g.mag * t.sin(), g.mag * 1e-10, g.mag * f64::EPSILON]); }
            _ => {}
        }
    }
    if let Some(d) = dict_pick(r) { for c in cands.clone() { cands.push(c * d); cands.push(c + d); } }
    let cands: Vec<f64> = cands.into_iter().filter(|c| c.is_finite()).collect();
    if cands.is_empty() || v.is_empty() { return; }
    // one geometric number equal to an operation on two others (`r = speed * t`, `p = a + b`, …): the exact ties a shortcut keyed on
    // `x == y * z` can sit on
    let gidx: Vec<usize> = v.iter().enumerate().filter(|(_, x)| matches!(x, Val::G(_))).map(|(j, _)| j).collect();
    if gidx.len() >= 3 && r.chance(1, 2) {
        let i = *r.pick(&gidx);
        let rest: Vec<usize> = gidx.iter().copied().filter(|&j| j != i).collect();
        let (a, b) = (v[*r.pick(&rest)].g().unwrap(), v[*r.pick(&rest)].g().unwrap());
        let k = r.below(5);
        if let Ok(g) = std::panic::catch_unwind(move || r_op(a, b, k)) {
            if g.mag.is_finite() && (g.mag == 0.0 || (g.mag.abs() >= 1e-100 && g.mag.abs() <= 1e100)) && canonical_rem(g.angle.rem()) {
                v[i] = Val::G(Geonum::new_with_angle(g.mag.abs(), g.angle));
                return;
            }
        }
    }
    let i = r.below(v.len() as u64) as usize;
    let c = ulps(*r.pick(&cands), if r.chance(1, 2) { 0 } else { r.range(-1, 1) });
    let others: Vec<Geonum> = v.iter().enumerate().filter(|(j, _)| *j != i).filter_map(|(_, x)| x.g()).collect();
    v[i] = match &v[i] {
        Val::F(_) => Val::F(c),
        Val::G(g) => {
            let m = c.abs();
            let m = if m == 0.0 || (m >= 1e-100 && m <= 1e100) { m } else { g.mag };
            let ang = if !others.is_empty() && r.chance(1, 2) {
                let o = r.pick(&others).angle;
                match r.below(5) { 0 => o, 1 => mk_angle(o.blade() + 4 * (1 + r.below(3) as usize), o.rem()), 2 => mk_angle(o.blade() + 2, o.rem()), 3 => mk_angle(o.blade() + 1, o.rem()), _ => mk_angle(g.angle.blade(), o.rem()) }
            } else { g.angle };
            Val::G(Geonum::new_with_angle(m, ang))
        }
        Val::A(a) => { let rem = c.abs(); Val::A(if canonical_rem(rem) { mk_angle(a.blade(), rem) } else { *a }) }
        o => o.clone(),
    };
}

fn r_op(a: Geonum, b: Geonum, k: u64) -> Geonum {
    match k { 0 => a * b, 1 => a + b, 2 => a - b, 3 => b * a, _ => if b.mag != 0.0 { a / b } else { a * b } }
}

fn gen_args_base(name: &str, sig: &str, r: &mut Rng) -> Vec<Val> {
    match name {
        "angle.new" => { let (p, d) = gen_new_args(r); vec![Val::F(p), Val::F(d)] }
        "angle.new_with_blade" => { let (p, d) = gen_new_args(r); vec![Val::N(gen_blade(r)), Val::F(p), Val::F(d)] }
        "geonum.new" => { let (p, d) = gen_new_args(r); vec![Val::F(gen_mag(r)), Val::F(p), Val::F(d)] }
        "geonum.new_with_blade" => { let (p, d) = gen_new_args(r); vec![Val::F(gen_mag(r)), Val::N(gen_blade(r)), Val::F(p), Val::F(d)] }
        "angle.new_from_cartesian" | "geonum.new_from_cartesian" => { let (x, y) = gen_cartesian(r); vec![Val::F(x), Val::F(y)] }
        "geonum.new_with_angle" => vec![Val::F(gen_mag(r)), Val::A(gen_angle(r))],
        "geonum.create_dimension" => vec![Val::F(gen_mag(r)), Val::N(gen_blade(r))],
        "geonum.scalar" => vec![Val::F(if r.chance(1, 3) { gen_factor(r) } else if r.chance(1, 4) { log_uniform(r, -307.0, 308.0) * if r.chance(1, 2) { -1.0 } else { 1.0 } }
                                       else { gen_mag(r) * if r.chance(1, 2) { -1.0 } else { 1.0 } })],
        "angle.divf.v" | "angle.divf.r" => {
            let a = mk_angle((gen_blade(r) as u64 % (1u64 << 21)) as usize, gen_rem(r));
            let k = match r.below(8) { 0 => 1.0, 1 => 2.0, 2 => 4.0, 3 => r.range(1, 12) as f64, 4 => 0.5, _ => log_uniform(r, -10.0, 10.0) };
            let tot = a.blade() as f64 / k;
            let k = if tot <= (1u64 << 40) as f64 { k } else { 1.0 };
            vec![Val::A(a), Val::F(k)]
        }
        "geonum.pow" => {
            let g = Geonum::new_with_angle(if r.chance(1, 4) { gen_mag(r).min(1e10).max(0.0) } else { gen_pos(r) }, gen_angle(r));
            let n = match r.below(6) { 0 => 2.0, 1 => 0.5, 2 => r.range(0, 5) as f64, 3 => -1.0, _ => r.unit() * 4.0 };
            vec![Val::G(g), Val::F(n)]
        }
        "geonum.scale" => vec![Val::G(gen_geonum(r)), Val::F(gen_factor(r))],
        "geonum.scale_rotate" => vec![Val::G(gen_geonum(r)), Val::F(gen_factor(r)), Val::A(gen_angle(r))],
        "geonum.invert_circle" => {
            let (p, c) = gen_geonum_pair(r);
            vec![Val::G(p), Val::G(c), Val::F(gen_pos(r))]
        }
        "geonum.project_to_dimension" => vec![Val::G(gen_geonum(r)), Val::N(gen_blade(r))],
        "geonum.is_orthogonal" | "geonum.dot" if r.chance(1, 4) => { let (a, b) = gen_dot_threshold_pair(r); vec![Val::G(a), Val::G(b)] }
        "coll.index" => { let l = gen_list(r); let n = l.len(); let i = if r.chance(1, 8) { n + r.below(3) as usize } else { r.below(n.max(1) as u64) as usize }; vec![Val::L(l), Val::N(i)] }
        "coll.truncate" => {
            let l = gen_list(r);
            let t = if !l.is_empty() && r.chance(2, 3) { ulps(r.pick(&l).mag, r.range(-1, 1)) } else if r.chance(1, 4) { -1.0 } else { gen_mag(r) };
            vec![Val::L(l), Val::F(t)]
        }
        "coll.select_cone" => {
            let l = gen_list(r);
            let dir = if r.chance(1, 10) { Geonum::new_with_angle(0.0, gen_angle(r)) } else if !l.is_empty() && r.chance(1, 3) { *r.pick(&l) } else { gen_pos_geonum(r) };
            let h = if !l.is_empty() && r.chance(1, 3) {
                // exactly the computed angle of one member (boundary `<=`)
                let g = *r.pick(&l);
                let m = g.mag * dir.mag;
                if m != 0.0 {
                    let dot = g.dot(&dir);
                    let sc = dot.mag / m * dot.angle.project(Angle::new(0.0, 1.0));
                    ulps(sc.clamp(-1.0, 1.0).acos(), r.range(-1, 1))
                } else { 1.0 }
            } else if r.chance(1, 6) { 0.0 } else { r.unit() * 5.0 - 1.0 };
            vec![Val::L(l), Val::G(dir), Val::F(h)]
        }
        "coll.scale_all" => vec![Val::L(gen_list(r)), Val::F(gen_factor(r))],
        "optics.refract" => {
            let g = gen_geonum(r);
            let s = g.angle.grade_angle().sin().abs();
            let n = match r.below(4) { 0 => s, 1 => ulps(s, 1), 2 => s + r.unit() * 2.0, _ => 1.0 + r.unit() };
            vec![Val::G(g), Val::G(Geonum::new_with_angle(if n > 0.0 { n } else { 1.5 }, gen_angle(r)))]
        }
        "optics.aberrate" => { let mut l = gen_list(r); l.truncate(8); vec![Val::G(gen_geonum(r)), Val::L(l)] }
        "optics.otf" => vec![Val::G(gen_geonum(r)), Val::G(gen_pos_geonum(r)), Val::G(gen_pos_geonum(r))],
        "optics.magnify" => vec![Val::G(gen_geonum(r)), Val::G(gen_pos_geonum(r))],
        "optics.abcd_transform" => (0..5).map(|i| Val::G(if i == 0 { gen_geonum(r) } else { Geonum::new_with_angle(r.unit() * 4.0, gen_angle(r)) })).collect(),
        "em.inverse_field" => vec![Val::G(gen_pos_geonum(r)), Val::G(gen_pos_geonum(r)), Val::G(Geonum::new_with_angle(*r.pick(&[1.0, 2.0, 3.0, 0.5, 2.5]), gen_angle(r))), Val::A(gen_angle(r)), Val::G(gen_pos_geonum(r))],
        "em.electric_potential" | "em.electric_field" => vec![Val::G(Geonum::new_with_angle(gen_pos(r) * 1e-6, gen_angle(r))), Val::G(if r.chance(1, 20) { Geonum::new_with_angle(0.0, gen_angle(r)) } else { gen_pos_geonum(r) })],
        "em.wire_vector_potential" | "em.wire_magnetic_field" => vec![Val::G(gen_pos_geonum(r)), Val::G(gen_pos_geonum(r)), Val::G(gen_pos_geonum(r))],
        "em.spherical_wave_potential" => (0..4).map(|_| Val::G(gen_pos_geonum(r))).collect(),
        "waves.frequency" | "waves.wavenumber" => { let (a, b) = gen_geonum_pair(r); vec![Val::G(a), Val::G(b), Val::G(gen_pos_geonum(r))] }
        "ml.regression_from" => vec![Val::F((r.unit() * 2.0 - 1.0) * gen_pos(r)), Val::F(gen_pos(r))],
        "ml.perceptron_update" => vec![Val::G(gen_geonum(r)), Val::F(r.unit()), Val::F(r.unit() * 2.0 - 1.0), Val::G(gen_geonum(r))],
        "affine.area_quadrilateral" => {
            let c = gen_pos(r);
            (0..4).map(|_| { let (x, y) = ((r.unit() * 2.0 - 1.0) * c, (r.unit() * 2.0 - 1.0) * c);
                let g = Geonum::new_from_cartesian(x, y);
                Val::G(Geonum::new_with_angle(g.mag, mk_angle(g.angle.blade() + 4 * r.below(3) as usize, g.angle.rem()))) }).collect()
        }
        "arith.fmod" => { let (p, _) = gen_new_args(r); vec![Val::F(p * PI), Val::F(QP)] }
        "arith.as_usize" => vec![Val::F(match r.below(4) { 0 => r.range(0, 1 << 41) as f64, 1 => r.unit() * 1e6, 2 => gen_f_generic(r), _ => r.range(0, 100) as f64 + 0.5 })],
        "arith.of_usize" => vec![Val::N(if r.chance(1, 2) { gen_blade(r) } else { r.next() as usize >> r.below(40) })],
        "arith.is_finite" => vec![Val::F(if r.chance(1, 2) { malform_f(r) } else { gen_f_generic(r) })],
        "arith.is_normal" => vec![Val::F(match r.below(6) { 0 => 0.0, 1 => ulps(f64::MIN_POSITIVE, r.range(-3, 3)), 2 => 5e-324 * (1 + r.below(1000)) as f64, 3 => -ulps(f64::MIN_POSITIVE, r.range(-3, 3)), 4 => malform_f(r), _ => gen_f_generic(r) })],
        "arith.acos" | "arith.asin" | "arith.clamp" => vec![Val::F(match r.below(4) { 0 => 1.0, 1 => -1.0, 2 => ulps(1.0, r.range(-2, 2)), _ => r.unit() * 2.0 - 1.0 })],
        "arith.cos" | "arith.sin" => vec![Val::F(match r.below(4) { 0 => (r.range(0, 4) as f64) * PI / 2.0, 1 => ulps((r.range(0, 4) as f64) * PI / 2.0, r.range(-3, 3)), _ => r.unit() * 2.0 * PI })],
        _ => default_args(sig, r),
    }
}

/// malformed stream: same ops, arguments outside the properties' domain (tie only, never fed to an oracle)
pub fn gen_args_malformed(name: &str, sig: &str, r: &mut Rng) -> Vec<Val> {
    let mut v = gen_args(name, sig, r);
    let idxs: Vec<usize> = (0..v.len()).filter(|&i| matches!(v[i], Val::F(_) | Val::A(_) | Val::G(_) | Val::L(_))).collect();
    if idxs.is_empty() { return v; }
    let k = 1 + r.below(2) as usize;
    for _ in 0..k {
        let i = *r.pick(&idxs);
        v[i] = match &v[i] {
            Val::F(_) => Val::F(malform_f(r)),
            Val::A(_) => Val::A(malform_angle(r)),
            Val::G(_) => Val::G(malform_geonum(r)),
            Val::L(l) => { let mut l = l.clone(); if l.is_empty() { l.push(malform_geonum(r)); } else { let j = r.below(l.len() as u64) as usize; l[j] = malform_geonum(r); } Val::L(l) }
            o => o.clone(),
        };
    }
    // sort needs a lawful order: keep NaN out of it (std's sort may or may not reach an unordered pair)
    if name == "geonum.sort" {
        if let Val::L(l) = &v[0] {
            let l: Vec<Geonum> = l.iter().map(|g| Geonum::new_with_angle(if g.mag.is_nan() { 1.0 } else { g.mag }, if g.angle.rem().is_nan() { mk_angle(g.angle.blade(), 0.0) } else { g.angle })).collect();
            v[0] = Val::L(l);
        }
    }
    v
}
