//! gharness — implementation side of the correspondence check and of the failing-input search.
//!   gharness list
//!   gharness gen --seed S --count N --ops a,b,c [--malformed PCT] [--hist N]   > ops.txt
//!   gharness run < ops.txt > impl.out
mod gen;
mod ops_gen;
mod rng;
mod val;
mod hist;
mod grid;
mod oracle;
mod oracle2;
mod oracle3;

use std::io::{BufRead, Write};
use val::*;

fn sig_of(name: &str) -> Option<(&'static str, &'static str)> {
    ops_gen::OPS.iter().find(|o| o.0 == name).map(|o| (o.1, o.2))
}

pub fn run_line(line: &str) -> String {
    let mut it = line.split_whitespace();
    let name = match it.next() { Some(n) => n, None => return "bad-op".into() };
    if name.starts_with("oracle.") { return oracle::run_line(line); }
    let (sig, _ret) = match sig_of(name) { Some(s) => s, None => return "bad-op".into() };
    let toks: Vec<&str> = it.collect();
    if toks.len() != sig.len() { return "bad-op".into(); }
    let mut args = Vec::new();
    for (k, t) in sig.chars().zip(toks.iter()) {
        match parse_arg(k, t) { Some(v) => args.push(v), None => return "bad-op".into() }
    }
    let name = name.to_string();
    match std::panic::catch_unwind(move || ops_gen::run_op(&name, &args)) {
        Ok(Some(s)) => s,
        Ok(None) => "bad-op".into(),
        Err(_) => "panic".into(),
    }
}

fn arg<'a>(args: &'a [String], key: &str) -> Option<&'a str> {
    args.iter().position(|a| a == key).and_then(|i| args.get(i + 1)).map(|s| s.as_str())
}

fn main() {
    std::panic::set_hook(Box::new(|_| {}));
    let args: Vec<String> = std::env::args().collect();
    let mode = args.get(1).map(|s| s.as_str()).unwrap_or("");
    let out = std::io::stdout();
    let mut out = std::io::BufWriter::new(out.lock());
    match mode {
        "list" => { for o in ops_gen::OPS { writeln!(out, "{} {} {}", o.0, o.1, o.2).unwrap(); } }
        "run" => {
            let stdin = std::io::stdin();
            for line in stdin.lock().lines() {
                let line = line.unwrap();
                writeln!(out, "{}", run_line(&line)).unwrap();
            }
        }
        "gen" => {
            let seed: u64 = arg(&args, "--seed").and_then(|s| s.parse().ok()).unwrap_or(1);
            let count: usize = arg(&args, "--count").and_then(|s| s.parse().ok()).unwrap_or(1000);
            let malformed: u64 = arg(&args, "--malformed").and_then(|s| s.parse().ok()).unwrap_or(0);
            let hist: usize = arg(&args, "--hist").and_then(|s| s.parse().ok()).unwrap_or(0);
            let ops_arg = arg(&args, "--ops").unwrap_or("all");
            let names: Vec<&str> = if ops_arg == "all" { ops_gen::OPS.iter().map(|o| o.0).collect() } else { ops_arg.split(',').collect() };
            let mut r = rng::Rng::new(seed);
            let per = (count + names.len() - 1) / names.len().max(1);
            for name in &names {
                let (sig, _) = sig_of(name).unwrap_or_else(|| panic!("unknown op {}", name));
                let n = if sig.is_empty() { 1 } else { per };
                for _ in 0..n {
                    // lines of the malformed stream (arguments outside every property's domain) are marked with a leading `!`
                    let mal = malformed > 0 && r.below(100) < malformed;
                    let a = if mal { gen::gen_args_malformed(name, sig, &mut r) } else { gen::gen_args(name, sig, &mut r) };
                    writeln!(out, "{}{}", if mal { "!" } else { "" }, line(name, &a)).unwrap();
                }
            }
            for _ in 0..hist {
                for l in hist::gen_history(&mut r, &names) { writeln!(out, "{}", l).unwrap(); }
            }
        }
        "gen-oracle" => {
            let seed: u64 = arg(&args, "--seed").and_then(|s| s.parse().ok()).unwrap_or(1);
            let count: usize = arg(&args, "--count").and_then(|s| s.parse().ok()).unwrap_or(1000);
            let prop = arg(&args, "--prop").unwrap_or("");
            let cl: Vec<oracle::Clause> = oracle::clauses().into_iter().filter(|c| c.prop == prop).collect();
            let mut r = rng::Rng::new(seed ^ 0x5bd1e995);
            let per = (count + cl.len().max(1) - 1) / cl.len().max(1);
            for c in &cl {
                for _ in 0..per {
                    let mut a = (c.gen)(&mut r);
                    // change-directed mode: tie the clause's arguments to each other as well
                    if !gen::dict().is_empty() && r.chance(1, 4) { gen::relate(&mut a, &mut r); }
                    writeln!(out, "{}", line(&format!("oracle.{}.{}", c.prop, c.name), &a)).unwrap();
                }
            }
        }
        "gen-grid" => {
            // exhaustive grids (DESIGN §8): C04 blade differences in [-2^12, 2^12] x remainder-gap classes; C07 all operation
            // sequences up to --depth over a 14-letter alphabet from 24 start states
            let prop = arg(&args, "--prop").unwrap_or("");
            let depth: usize = arg(&args, "--depth").and_then(|s| s.parse().ok()).unwrap_or(3);
            for l in grid::grid(prop, depth) { writeln!(out, "{}", l).unwrap(); }
        }
        "list-oracle" => { for c in oracle::clauses() { writeln!(out, "{} {} {}", c.prop, c.name, c.sig).unwrap(); } }
        _ => { eprintln!("usage: gharness list|gen|run"); std::process::exit(2); }
    }
}
