#!/bin/sh
# build the framework from files on disk only (offline): Lean model + proofs + driver, Rust harness
set -e
cd "$(dirname "$0")"
export CARGO_NET_OFFLINE=true
python3 tools/ops_table.py --check
mkdir -p work && python3 tools/featmodel.py
(cd lean && lake build GeonumModel GeonumModel.Props.C20 GeonumModel.Spec.RoundWitness gdriver)
(cd harness && cargo build --offline)
echo setup-ok
